package zzsimrt

import (
	"io/ioutil"
	"os"
)

// File-system seam. Every mutation is reported to the world's FSHandler *before* it is
// performed; the handler may snapshot the directory, apply a prefix of a write (torn write)
// or end the generation (kill). Reads are not events.

const (
	FSCreate = iota // os.Create / OpenFile with O_CREATE|O_TRUNC
	FSWrite         // write(2) issued through *File
	FSRename
	FSRemove
	FSRemoveAll
	FSTruncate
	FSWriteFile
	FSMkdir
)

var fsKindNames = []string{"create", "write", "rename", "remove", "removeall", "truncate", "writefile", "mkdir"}

func FSKindName(k int) string { return fsKindNames[k] }

type FSEvent struct {
	Seq   int64
	Step  int64
	Kind  int
	Path  string
	Path2 string
	Off   int64 // file offset of a write (-1 if unknown), new size for truncate
	Data  []byte
	Task  int
	Tag   string
	file  *File
	wrote int
}

// WritePrefix performs the first n bytes of a pending write event now (torn-write support).
// The remainder is written when the handler returns.
func (ev *FSEvent) WritePrefix(n int) error {
	if ev.Kind != FSWrite || ev.file == nil {
		return nil
	}
	if n > len(ev.Data) {
		n = len(ev.Data)
	}
	if n <= ev.wrote {
		return nil
	}
	m, err := ev.file.File.Write(ev.Data[ev.wrote:n])
	ev.wrote += m
	return err
}

type File struct {
	*os.File
}

func (w *World) fsEvent(ev *FSEvent) {
	w.yield("fs")
	w.fsSeq++
	ev.Seq = w.fsSeq
	ev.Step = w.step
	ev.Task = w.cur.id
	ev.Tag = w.cur.tag
	if w.FSHandler != nil {
		w.FSHandler(ev)
	}
}

func (f *File) Write(p []byte) (int, error) {
	w := active()
	if w == nil {
		return f.File.Write(p)
	}
	off, err := f.File.Seek(0, 1)
	if err != nil {
		off = -1
	}
	ev := &FSEvent{Kind: FSWrite, Path: f.File.Name(), Off: off, Data: p, file: f}
	w.fsEvent(ev)
	n, err := f.File.Write(p[ev.wrote:])
	return n + ev.wrote, err
}

func (f *File) WriteString(s string) (int, error) { return f.Write([]byte(s)) }

func wrap(f *os.File, err error) (*File, error) {
	if err != nil {
		return nil, err
	}
	return &File{f}, nil
}

func Open(name string) (*File, error) { return wrap(os.Open(name)) }

func Create(name string) (*File, error) {
	if w := active(); w != nil {
		w.fsEvent(&FSEvent{Kind: FSCreate, Path: name, Off: -1})
	}
	return wrap(os.Create(name))
}

func OpenFile(name string, flag int, perm os.FileMode) (*File, error) {
	if w := active(); w != nil && flag&(os.O_CREATE|os.O_TRUNC) != 0 {
		w.fsEvent(&FSEvent{Kind: FSCreate, Path: name, Off: -1})
	}
	return wrap(os.OpenFile(name, flag, perm))
}

func Rename(oldpath, newpath string) error {
	if w := active(); w != nil {
		w.fsEvent(&FSEvent{Kind: FSRename, Path: oldpath, Path2: newpath, Off: -1})
	}
	return os.Rename(oldpath, newpath)
}

func Remove(name string) error {
	if w := active(); w != nil {
		w.fsEvent(&FSEvent{Kind: FSRemove, Path: name, Off: -1})
	}
	return os.Remove(name)
}

func RemoveAll(name string) error {
	if w := active(); w != nil {
		w.fsEvent(&FSEvent{Kind: FSRemoveAll, Path: name, Off: -1})
	}
	return os.RemoveAll(name)
}

func Truncate(name string, size int64) error {
	if w := active(); w != nil {
		w.fsEvent(&FSEvent{Kind: FSTruncate, Path: name, Off: size})
	}
	return os.Truncate(name, size)
}

func Mkdir(name string, perm os.FileMode) error {
	if w := active(); w != nil {
		w.fsEvent(&FSEvent{Kind: FSMkdir, Path: name, Off: -1})
	}
	return os.Mkdir(name, perm)
}

func MkdirAll(name string, perm os.FileMode) error {
	if _, err := os.Stat(name); err == nil {
		return nil // nothing to mutate
	}
	if w := active(); w != nil {
		w.fsEvent(&FSEvent{Kind: FSMkdir, Path: name, Off: -1})
	}
	return os.MkdirAll(name, perm)
}

func WriteFile(name string, data []byte, perm os.FileMode) error {
	if w := active(); w != nil {
		w.fsEvent(&FSEvent{Kind: FSWriteFile, Path: name, Off: 0, Data: data})
	}
	return ioutil.WriteFile(name, data, perm)
}
