package zzsimrt

import (
	"reflect"
	"time"
)

func Now() time.Time {
	w := cur
	if w == nil {
		return time.Unix(1600000000, 0)
	}
	return w.Now()
}

func Since(t time.Time) time.Duration { return Now().Sub(t) }

func Sleep(d time.Duration) {
	w := active()
	if w == nil {
		return
	}
	if d <= 0 {
		w.yield("sleep0")
		return
	}
	if q := time.Duration(w.Cfg.QuantumNS); d <= q {
		// the clock advances one quantum per scheduling step: a sleep no longer than that would be
		// over at the very decision that suspends the sleeper, and under a priority policy a task
		// polling with such sleeps (Close waiting for a pass to stop) would never let the task it
		// waits for run. A real Sleep always gives up the processor; sleeping longer is legal.
		d = q + 1
	}
	until := w.now + int64(d)
	w.addTimer(d, nil, nil) // makes the clock jump here when everything is blocked
	w.block("sleep", func() bool { return w.now >= until })
}

func After(d time.Duration) <-chan time.Time {
	ch := make(chan time.Time, 1)
	w := active()
	if w == nil {
		ch <- Now()
		return ch
	}
	w.addTimer(d, ch, nil)
	return ch
}

// AfterFunc registers a harness callback on the simulated clock. The callback runs inside the
// scheduler (no task context): it may only flip flags / deliver bytes, never block.
func (w *World) AfterFunc(d time.Duration, fn func()) {
	w.addTimer(d, nil, fn)
}

// RecvInt replaces a blocking `<-ch` on a chan int.
func RecvInt(ch chan int) int {
	w := active()
	if w == nil {
		return <-ch
	}
	w.yield("recv")
	for {
		select {
		case v := <-ch:
			return v
		default:
		}
		w.block("chan-recv", func() bool { return len(ch) > 0 })
	}
}

// SelectRecv replaces a blocking select whose cases are all receives. It returns the index
// of the case that received (the value is discarded: no case in the code base binds it).
// Ready cases are tried in an order taken from the schedule tape, never pseudo-randomly.
func SelectRecv(chans ...interface{}) int {
	vals := make([]reflect.Value, len(chans))
	for i, c := range chans {
		vals[i] = reflect.ValueOf(c)
	}
	w := active()
	if w == nil {
		for {
			for i, v := range vals {
				if _, ok := v.TryRecv(); ok {
					return i
				}
			}
			panic("zzsimrt: blocking select outside a world")
		}
	}
	w.yield("select")
	for {
		var ready []int
		for i, v := range vals {
			if v.Len() > 0 {
				ready = append(ready, i)
			}
		}
		if len(ready) > 0 {
			k := 0
			if len(ready) > 1 {
				k = w.Tape.S[StreamSched].ChooseBiased(len(ready), w.polrng)
			}
			i := ready[k]
			if _, ok := vals[i].TryRecv(); ok {
				return i
			}
			continue
		}
		w.block("select", func() bool {
			for _, v := range vals {
				if v.Len() > 0 {
					return true
				}
			}
			return false
		})
	}
}

// SimTimer is what AfterFunc returns (only Stop is provided; a use of the result as *time.Timer
// does not compile, which makes the check fail loudly).
type SimTimer struct{ stopped, fired bool }

// Stop prevents the function from running if it has not started yet.
func (t *SimTimer) Stop() bool {
	if t.fired || t.stopped {
		return false
	}
	t.stopped = true
	return true
}

// AfterFunc replaces time.AfterFunc: f runs in a task of its own once d of simulated time has
// passed (the real one runs f in its own goroutine).
func AfterFunc(d time.Duration, f func()) *SimTimer {
	t := &SimTimer{}
	w := active()
	if w == nil {
		return t
	}
	Go("time.AfterFunc", func() {
		Sleep(d)
		if t.stopped {
			return
		}
		t.fired = true
		f()
	})
	return t
}
