package zzsimrt

// Mutex, RWMutex and WaitGroup replace the sync types in the rewritten sources. The zero
// value is usable. Outside a world they degrade to their single-threaded meaning.

type Mutex struct {
	held int32 // 0 free, else task id + 1
	_    int32
}

func (m *Mutex) Lock() {
	w := active()
	if w == nil {
		m.held = 1
		return
	}
	w.yield("lock")
	for m.held != 0 {
		w.block("mutex", func() bool { return m.held == 0 })
	}
	m.held = int32(w.cur.id) + 1
}

func (m *Mutex) Unlock() {
	w := active()
	if m.held == 0 {
		panic("sync: unlock of unlocked mutex")
	}
	m.held = 0
	if w == nil {
		return
	}
	w.yield("unlock")
}

// Holder returns the id of the task holding the mutex, or -1.
func (m *Mutex) Holder() int { return int(m.held) - 1 }

type RWMutex struct {
	writer  int32 // task id + 1
	readers int32
}

func (m *RWMutex) Lock() {
	w := active()
	if w == nil {
		m.writer = 1
		return
	}
	w.yield("rwlock")
	for m.writer != 0 || m.readers != 0 {
		w.block("rwmutex-w", func() bool { return m.writer == 0 && m.readers == 0 })
	}
	m.writer = int32(w.cur.id) + 1
}

func (m *RWMutex) Unlock() {
	w := active()
	if m.writer == 0 {
		panic("sync: Unlock of unlocked RWMutex")
	}
	m.writer = 0
	if w == nil {
		return
	}
	w.yield("rwunlock")
}

func (m *RWMutex) RLock() {
	w := active()
	if w == nil {
		m.readers++
		return
	}
	w.yield("rlock")
	for m.writer != 0 {
		w.block("rwmutex-r", func() bool { return m.writer == 0 })
	}
	m.readers++
}

func (m *RWMutex) RUnlock() {
	w := active()
	if m.readers <= 0 {
		panic("sync: RUnlock of unlocked RWMutex")
	}
	m.readers--
	if w == nil {
		return
	}
	w.yield("runlock")
}

type WaitGroup struct {
	n int64
}

func (g *WaitGroup) Add(d int) {
	g.n += int64(d)
	if g.n < 0 {
		panic("sync: negative WaitGroup counter")
	}
}

func (g *WaitGroup) Done() {
	g.Add(-1)
	if w := active(); w != nil {
		w.yield("wg-done")
	}
}

func (g *WaitGroup) Wait() {
	w := active()
	if w == nil {
		if g.n != 0 {
			panic("zzsimrt: WaitGroup.Wait outside a world with pending count")
		}
		return
	}
	w.yield("wg-wait")
	for g.n != 0 {
		w.block("waitgroup", func() bool { return g.n == 0 })
	}
}
