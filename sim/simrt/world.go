// Package zzsimrt is the deterministic simulation runtime that the mechanically rewritten
// gobeansdb sources call instead of sync / go / time / os mutations / blocking channel
// receives.  Exactly one task (goroutine of the system or of the harness) runs at any
// instant; every scheduling decision is taken from a choice tape so that a run is a pure
// function of (code, tape).
package zzsimrt

import (
	"fmt"
	"runtime"
	"sort"
	"strings"
	"time"
)

// Status of a finished world generation.
const (
	StatusRunning  = iota
	StatusDone     // root task returned (clean process exit: all other tasks die where they are)
	StatusKilled   // harness killed the world at an event
	StatusFatal    // the system logged FATAL (os.Exit(1) in the shipped log hub)
	StatusPanic    // an unrecovered panic in some task (process crash)
	StatusDeadlock // no task can run and no timer is pending
	StatusStepCap  // step budget exhausted (inconclusive)
)

var statusNames = []string{"running", "done", "killed", "fatal", "panic", "deadlock", "stepcap"}

func StatusName(s int) string { return statusNames[s] }

// Scheduling policies.
const (
	PolicyRandomWalk = iota
	PolicyPCT
	PolicySpawnDelay
)

type Config struct {
	Policy     int
	PreemptDen int   // random walk: preempt with probability 1/PreemptDen
	PCTDepth   int   // number of priority change points
	PCTSteps   int   // guess of the run length used to place change points
	SpawnHold  int   // spawn-delay policy: max steps a new background task is held
	QuantumNS  int64 // simulated time added per scheduling step
	MaxSteps   int64
	FuncYield  bool // honour Yield() calls inserted at function entries
	StmtYield  bool // honour YieldStmt() calls inserted before every statement of the core store files
	BiasTag    string // random walk: a running task with this tag is preempted with probability 1/2 (targets its windows)
	EpochUnix  int64
}

type task struct {
	id                  int
	name                string
	wake                chan struct{}
	done                bool
	ready               func() bool // nil = runnable
	what                string      // what it is blocked on (diagnostics)
	idle                bool        // waits for "nobody else can run"
	prio                int64
	holdTil             int64
	stallTil            int64 // stalled-task fault: not chosen before this step unless nothing else can run
	system              bool // spawned by rewritten code (not by the harness)
	firstStep, lastStep int64
	parent              int
	tag                 string
}

type TaskInfo struct {
	ID                  int
	Name                string
	Tag                 string
	Done                bool
	Blocked             string
	System              bool
	Parent              int
	FirstStep, LastStep int64
}

type timer struct {
	at   int64
	ch   chan time.Time
	fn   func()
	done bool
	seq  int64
}

type Result struct {
	Status  int
	Msg     string
	Stack   string
	Steps   int64
	SimNS   int64
	Blocked []string
}

type World struct {
	Cfg    Config
	Tape   *Tape
	tasks  []*task
	cur    *task
	now    int64
	step   int64
	timers []*timer
	tseq   int64
	stale  int
	dead   bool
	res    Result
	fin    chan struct{}
	polrng *splitmix
	pctPts []int64

	FSHandler func(ev *FSEvent) // called before every file-system mutation
	fsSeq     int64
	Trace     func(kind string, a ...interface{}) // optional event trace (must not draw choices)

	SchedDecisions int64
	Preemptions    int64
	schedHash      uint64
	Probes         map[string]int64
	TagNext        string // tag given to tasks spawned while set (harness use)
	// StallHook (harness): called at every function entry instrumented by the rewriter with the
	// function's name; a result n > 0 stalls the running task for n scheduler steps (fault kind
	// "stalled thread": descheduled for long at an arbitrary point; other tasks keep running)
	StallHook func(site string) int64
}

var cur *World

// Current returns the installed world (nil between worlds).
func Current() *World { return cur }

func NewWorld(cfg Config, tape *Tape) *World {
	if cfg.PreemptDen <= 0 {
		cfg.PreemptDen = 8
	}
	if cfg.MaxSteps <= 0 {
		cfg.MaxSteps = 300000
	}
	if cfg.QuantumNS <= 0 {
		cfg.QuantumNS = 1000
	}
	if cfg.EpochUnix == 0 {
		cfg.EpochUnix = 1600000000
	}
	w := &World{Cfg: cfg, Tape: tape, fin: make(chan struct{}), Probes: map[string]int64{}}
	w.polrng = newSplitmix(tape.PolicySeed())
	if cfg.Policy == PolicyPCT {
		n := cfg.PCTSteps
		if n <= 0 {
			n = 2000
		}
		for i := 0; i < cfg.PCTDepth; i++ {
			w.pctPts = append(w.pctPts, int64(w.polrng.intn(n)))
		}
	}
	return w
}

// Run executes root as task 0 of a new process generation and returns when the generation ends.
// It must be called from outside any world.
func (w *World) Run(root func()) Result {
	if cur != nil {
		panic("zzsimrt: nested world")
	}
	cur = w
	t := w.newTask("root", false)
	w.cur = t
	go w.taskMain(t, root, true)
	t.wake <- struct{}{}
	<-w.fin
	cur = nil
	w.res.Steps = w.step
	w.res.SimNS = w.now
	return w.res
}

func (w *World) newTask(name string, system bool) *task {
	t := &task{id: len(w.tasks), name: name, wake: make(chan struct{}, 1), system: system, firstStep: w.step}
	if w.cur != nil {
		t.parent = w.cur.id
		t.tag = w.cur.tag
	}
	if w.TagNext != "" {
		t.tag = w.TagNext
	}
	t.prio = int64(w.polrng.next()>>2) + 1000
	if w.Cfg.Policy == PolicySpawnDelay && system && w.Cfg.SpawnHold > 0 {
		t.holdTil = w.step + int64(w.polrng.intn(w.Cfg.SpawnHold+1))
	}
	w.tasks = append(w.tasks, t)
	return t
}

func (w *World) taskMain(t *task, f func(), isRoot bool) {
	<-t.wake
	defer func() {
		if r := recover(); r != nil {
			buf := make([]byte, 16384)
			n := runtime.Stack(buf, false)
			w.finish(StatusPanic, fmt.Sprintf("task %d %s: %v", t.id, t.name, r), string(buf[:n]))
			select {}
		}
	}()
	f()
	t.done = true
	t.lastStep = w.step
	if isRoot {
		w.finish(StatusDone, "", "")
		return
	}
	w.handoff(t)
}

// finish ends the generation. The calling task must park afterwards (if it is a world task).
func (w *World) finish(status int, msg, stack string) {
	if w.dead {
		return
	}
	w.dead = true
	w.res.Status = status
	w.res.Msg = msg
	w.res.Stack = stack
	if status == StatusDeadlock || status == StatusStepCap {
		for _, t := range w.tasks {
			if !t.done {
				w.res.Blocked = append(w.res.Blocked, fmt.Sprintf("%d:%s[%s]", t.id, t.name, t.what))
			}
		}
	}
	close(w.fin)
}

// die is called by a running task that must never run again.
func (w *World) die() {
	select {}
}

// Exit ends the generation from inside a task (FATAL log, harness kill).
func (w *World) Exit(status int, msg string) {
	w.finish(status, msg, "")
	w.die()
}

// Exit on the package level is used by the harness log hub.
func Exit(status int, msg string) {
	w := cur
	if w == nil || w.dead {
		return
	}
	w.Exit(status, msg)
}

func (w *World) Now() time.Time {
	return time.Unix(w.Cfg.EpochUnix, 0).Add(time.Duration(w.now))
}
func (w *World) NowNS() int64       { return w.now }
func (w *World) Steps() int64       { return w.step }
func (w *World) FSSeq() int64       { return w.fsSeq }
func (w *World) Dead() bool         { return w.dead }
func (w *World) CurTask() int       { return w.cur.id }
func (w *World) CurTag() string     { return w.cur.tag }
func (w *World) SetCurTag(s string) { w.cur.tag = s }
func (w *World) SchedHash() uint64  { return w.schedHash }

// Advance moves the clock forward (harness only) and yields so that expired timers can run.
func (w *World) Advance(d time.Duration) {
	w.now += int64(d)
	w.fireTimers()
	w.yield("advance")
}

// AdvanceNoYield moves the clock without giving up the processor.
func (w *World) AdvanceNoYield(d time.Duration) {
	w.now += int64(d)
	w.fireTimers()
}

func (w *World) Probe(name string) { w.Probes[name]++ }

func Probe(name string) {
	if w := cur; w != nil {
		w.Probes[name]++
	}
}

func (w *World) Tasks() []TaskInfo {
	out := make([]TaskInfo, 0, len(w.tasks))
	for _, t := range w.tasks {
		ti := TaskInfo{ID: t.id, Name: t.name, Tag: t.tag, Done: t.done, System: t.system, Parent: t.parent,
			FirstStep: t.firstStep, LastStep: t.lastStep}
		if t.ready != nil {
			ti.Blocked = t.what
		}
		out = append(out, ti)
	}
	return out
}

// LiveTasks returns the names of tasks that are not finished, with what they wait for.
func (w *World) LiveTasks() []string {
	var out []string
	for _, t := range w.tasks {
		if !t.done {
			out = append(out, fmt.Sprintf("%d:%s[%s]", t.id, t.name, t.what))
		}
	}
	return out
}

// ---------------------------------------------------------------------------------------
// scheduling

func (w *World) fireTimers() {
	if len(w.timers) == 0 {
		return
	}
	fired := w.stale > 0
	w.stale = 0
	for _, tm := range w.timers {
		if !tm.done && tm.at <= w.now {
			tm.done = true
			fired = true
			if tm.ch != nil {
				select {
				case tm.ch <- time.Unix(w.Cfg.EpochUnix, 0).Add(time.Duration(w.now)):
				default:
				}
			}
			if tm.fn != nil {
				tm.fn()
			}
		}
	}
	if fired {
		k := 0
		for _, tm := range w.timers {
			if !tm.done {
				w.timers[k] = tm
				k++
			}
		}
		for i := k; i < len(w.timers); i++ {
			w.timers[i] = nil
		}
		w.timers = w.timers[:k]
	}
}

func (w *World) addTimer(d time.Duration, ch chan time.Time, fn func()) *timer {
	if d < 0 {
		d = 0
	}
	w.tseq++
	tm := &timer{at: w.now + int64(d), ch: ch, fn: fn, seq: w.tseq}
	w.timers = append(w.timers, tm)
	return tm
}

func (w *World) nextTimerAt() (int64, bool) {
	var best int64
	ok := false
	for _, tm := range w.timers {
		if !tm.done && (!ok || tm.at < best) {
			best = tm.at
			ok = true
		}
	}
	return best, ok
}

// candidates returns the tasks that can run now: the current task first (if it can), then by id.
func (w *World) candidates(self *task) []*task {
	var cands []*task
	var stalled []*task
	selfReady := false
	for _, t := range w.tasks {
		if t.done || t.idle {
			continue
		}
		if t.ready != nil && !t.ready() {
			continue
		}
		if t.stallTil > w.step {
			stalled = append(stalled, t)
			continue
		}
		if t == self {
			selfReady = true
			continue
		}
		cands = append(cands, t)
	}
	if selfReady {
		cands = append([]*task{self}, cands...)
	}
	if len(cands) == 0 && len(stalled) > 0 {
		// nobody else can run: the stall ends early (a stall must never turn into a deadlock)
		for _, t := range stalled {
			t.stallTil = 0
			if t == self {
				cands = append([]*task{t}, cands...)
			} else {
				cands = append(cands, t)
			}
		}
		return cands
	}
	if len(cands) == 0 {
		for _, t := range w.tasks {
			if !t.done && t.idle {
				cands = append(cands, t)
			}
		}
	}
	return cands
}

// pick chooses the next task to run. self is the task giving up the processor (it may be
// blocked or done). Returns nil when the generation has ended.
func (w *World) pick(self *task) *task {
	for {
		if w.dead {
			return nil
		}
		w.step++
		w.now += w.Cfg.QuantumNS
		if w.step > w.Cfg.MaxSteps {
			w.finish(StatusStepCap, "step cap", "")
			return nil
		}
		w.fireTimers()
		if len(w.pctPts) > 0 && self != nil {
			for i, p := range w.pctPts {
				if p == w.step {
					self.prio = int64(i) // PCT change point: drop below every initial priority
				}
			}
		}
		cands := w.candidates(self)
		if len(cands) == 0 {
			at, ok := w.nextTimerAt()
			if !ok {
				w.finish(StatusDeadlock, "no runnable task and no timer", "")
				return nil
			}
			if at > w.now {
				w.now = at
			}
			w.fireTimers()
			continue
		}
		idx := 0
		if len(cands) > 1 {
			idx = w.decide(self, cands)
		}
		t := cands[idx]
		if t != self && self != nil && !self.done && self.ready == nil {
			w.Preemptions++
		}
		w.schedHash = (w.schedHash ^ uint64(t.id+1)) * 1099511628211
		return t
	}
}

func (w *World) decide(self *task, cands []*task) int {
	w.SchedDecisions++
	s := w.Tape.S[StreamSched]
	if s.replay {
		return s.Choose(len(cands))
	}
	idx := 0
	switch w.Cfg.Policy {
	case PolicyPCT:
		best := 0
		for i, t := range cands {
			if t.prio > cands[best].prio {
				best = i
			}
		}
		idx = best
	case PolicySpawnDelay:
		// run held tasks only when nothing else can run; otherwise a mild random walk
		var free []int
		for i, t := range cands {
			if t.holdTil <= w.step {
				free = append(free, i)
			}
		}
		if len(free) == 0 {
			idx = 0
		} else if free[0] == 0 && cands[0] == self && w.polrng.intn(w.Cfg.PreemptDen) != 0 {
			idx = 0
		} else {
			idx = free[w.polrng.intn(len(free))]
		}
	default:
		den := w.Cfg.PreemptDen
		if w.Cfg.BiasTag != "" && self != nil && self.tag == w.Cfg.BiasTag && den > 2 {
			den = 2
		}
		if cands[0] == self && w.polrng.intn(den) != 0 {
			idx = 0
		} else {
			idx = w.polrng.intn(len(cands))
		}
	}
	s.Record(idx)
	return idx
}

// handoff gives the processor to the next task; the caller is done or dead and never resumes.
func (w *World) handoff(self *task) {
	next := w.pick(self)
	if next == nil {
		return
	}
	w.cur = next
	next.wake <- struct{}{}
}

// yield is a scheduling point of a running task.
func (w *World) yield(what string) {
	self := w.cur
	next := w.pick(self)
	if next == self {
		return
	}
	if next == nil {
		w.die()
	}
	self.what = what
	w.cur = next
	next.wake <- struct{}{}
	<-self.wake
	self.what = ""
}

// block parks the running task until cond() holds.
func (w *World) block(what string, cond func() bool) {
	self := w.cur
	self.ready = cond
	self.what = what
	next := w.pick(self)
	if next == self {
		self.ready = nil
		self.what = ""
		return
	}
	if next == nil {
		w.die()
	}
	w.cur = next
	next.wake <- struct{}{}
	<-self.wake
	self.ready = nil
	self.what = ""
}

// inTask reports whether simulation primitives are active.
func active() *World {
	w := cur
	if w == nil || w.dead {
		return nil
	}
	return w
}

// Go starts f as a new task of the current world.
func Go(name string, f func()) {
	w := active()
	if w == nil {
		panic("zzsimrt.Go outside a world: " + name)
	}
	t := w.newTask(name, true)
	go w.taskMain(t, f, false)
	w.yield("spawn")
}

// GoHarness starts a harness task (not counted as system task).
func (w *World) GoHarness(name string, f func()) {
	t := w.newTask(name, false)
	go w.taskMain(t, f, false)
}

// YieldFn is inserted at function entries of package store by the rewriter. It is the site of
// the stalled-thread fault (in every world that installs a StallHook) and, in worlds with
// function-entry granularity, an ordinary scheduling point.
func YieldFn(site string) {
	w := cur
	if w == nil || w.dead {
		return
	}
	if w.StallHook != nil && w.cur != nil {
		if n := w.StallHook(site); n > 0 {
			w.cur.stallTil = w.step + n
			w.Probes["fault:thread-stalled"]++
			w.yield("stall:" + site)
			return
		}
	}
	if !w.Cfg.FuncYield {
		return
	}
	w.yield("func")
}

// Yield: function-entry scheduling point without a site name (kept for older scratch trees).
func Yield() { YieldFn("") }

// CurName returns the name of the running task.
func (w *World) CurName() string {
	if w.cur == nil {
		return ""
	}
	return w.cur.name
}

// HarnessYield is an explicit scheduling point for harness tasks.
func (w *World) HarnessYield() { w.yield("harness") }

// WaitIdle blocks the calling (harness) task until no other task can run at the current time.
func (w *World) WaitIdle() {
	self := w.cur
	self.idle = true
	self.what = "idle-wait"
	next := w.pick(self)
	if next == self {
		self.idle = false
		self.what = ""
		return
	}
	if next == nil {
		w.die()
	}
	w.cur = next
	next.wake <- struct{}{}
	<-self.wake
	self.idle = false
	self.what = ""
}

// WaitCond blocks the calling task until cond holds (evaluated at every scheduling decision).
func (w *World) WaitCond(what string, cond func() bool) {
	if cond() {
		return
	}
	w.block(what, cond)
}

// TasksDone reports whether every task with the given name that was spawned at or after
// fromID has finished (no scheduling point; usable inside conditions).
func (w *World) TasksDone(name string, fromID int) bool {
	for _, t := range w.tasks {
		if t.id >= fromID && t.name == name && !t.done {
			return false
		}
	}
	return true
}

func (w *World) NumTasks() int { return len(w.tasks) }

// WaitCondTimeout is WaitCond with a deadline on the simulated clock; it reports whether cond held.
func (w *World) WaitCondTimeout(what string, d time.Duration, cond func() bool) bool {
	if cond() {
		return true
	}
	until := w.now + int64(d)
	tm := w.addTimer(d, nil, nil)
	w.block(what, func() bool { return cond() || w.now >= until })
	if !tm.done {
		tm.done = true
		w.stale++
	}
	return cond()
}

// WaitCondSteps is WaitCond with a budget of scheduler steps; it reports whether cond held.
func (w *World) WaitCondSteps(what string, steps int64, cond func() bool) bool {
	if cond() {
		return true
	}
	until := w.step + steps
	w.block(what, func() bool { return cond() || w.step >= until })
	return cond()
}

func FreeOSMemory() {}

// ---------------------------------------------------------------------------------------

func (r Result) String() string {
	s := fmt.Sprintf("%s steps=%d sim=%s", statusNames[r.Status], r.Steps, time.Duration(r.SimNS))
	if r.Msg != "" {
		s += " msg=" + r.Msg
	}
	if len(r.Blocked) > 0 {
		b := append([]string(nil), r.Blocked...)
		sort.Strings(b)
		s += " blocked=" + strings.Join(b, ",")
	}
	return s
}

type splitmix struct{ x uint64 }

func newSplitmix(seed uint64) *splitmix { return &splitmix{seed} }
func (s *splitmix) next() uint64 {
	s.x += 0x9e3779b97f4a7c15
	z := s.x
	z = (z ^ (z >> 30)) * 0xbf58476d1ce4e5b9
	z = (z ^ (z >> 27)) * 0x94d049bb133111eb
	return z ^ (z >> 31)
}
func (s *splitmix) intn(n int) int {
	if n <= 1 {
		return 0
	}
	return int(s.next() % uint64(n))
}

// Poison overwrites a C-allocated buffer right before it is freed (inserted by the rewriter into
// cmem.CArray.Free): a later read through a dangling slice then sees 0xDD bytes.
func Poison(body []byte, addr uintptr) {
	if addr == 0 {
		return
	}
	for i := range body {
		body[i] = 0xDD
	}
}

// YieldStmt is inserted by the rewriter before every statement of the core store files; it is a
// scheduling point only in worlds that enable statement-level granularity.
func YieldStmt() {
	w := cur
	if w == nil || !w.Cfg.StmtYield || w.dead {
		return
	}
	w.yield("stmt")
}
