package zzsimrt

// The choice tape: the only source of choices of a run. Three streams so that editing the
// plan does not shift schedule or fault choices. In generation mode values are drawn from a
// PRNG seeded from the run's seed and recorded; in replay mode they are read back
// (out of range -> modulo, exhausted -> 0). 0 is always the simplest choice.

const (
	StreamPlan = iota
	StreamFault
	StreamSched
	NumStreams
)

type Stream struct {
	rng    *splitmix
	Vals   []int32
	pos    int
	replay bool
}

type Tape struct {
	Seed uint64
	S    [NumStreams]*Stream
}

func NewTape(seed uint64) *Tape {
	t := &Tape{Seed: seed}
	for i := range t.S {
		t.S[i] = &Stream{rng: newSplitmix(seed*0x9e3779b97f4a7c15 + uint64(i)*0x1234567 + 1)}
	}
	return t
}

// NewReplayTape builds a tape that replays recorded streams.
func NewReplayTape(seed uint64, vals [NumStreams][]int32) *Tape {
	t := &Tape{Seed: seed}
	for i := range t.S {
		t.S[i] = &Stream{Vals: vals[i], replay: true}
	}
	return t
}

func (t *Tape) PolicySeed() uint64 { return t.Seed ^ 0x5bd1e995deadbeef }

func (t *Tape) Snapshot() [NumStreams][]int32 {
	var out [NumStreams][]int32
	for i, s := range t.S {
		n := len(s.Vals)
		if s.replay && s.pos < n {
			n = s.pos
		}
		out[i] = append([]int32(nil), s.Vals[:n]...)
	}
	return out
}

func (s *Stream) Replay() bool { return s.replay }
func (s *Stream) Pos() int     { return s.pos }

// Choose returns a value in [0,n).
func (s *Stream) Choose(n int) int {
	if n <= 1 {
		return 0
	}
	if s.replay {
		v := 0
		if s.pos < len(s.Vals) {
			v = int(s.Vals[s.pos]) % n
			if v < 0 {
				v = -v
			}
		}
		s.pos++
		return v
	}
	v := s.rng.intn(n)
	s.Vals = append(s.Vals, int32(v))
	s.pos++
	return v
}

// ChooseBiased draws 0 with probability 3/4 (generation mode), using the policy generator.
func (s *Stream) ChooseBiased(n int, r *splitmix) int {
	if n <= 1 {
		return 0
	}
	if s.replay {
		return s.Choose(n)
	}
	v := 0
	if r.intn(4) == 0 {
		v = r.intn(n)
	}
	s.Record(v)
	return v
}

// Record appends a decision computed by a policy (generation mode only).
func (s *Stream) Record(v int) {
	s.Vals = append(s.Vals, int32(v))
	s.pos++
}

// Choose on the world: convenience for harness code.
func (w *World) Choose(stream int, n int) int { return w.Tape.S[stream].Choose(n) }
