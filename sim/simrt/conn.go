package zzsimrt

import (
	"io"
	"net"
	"time"
)

// Conn is the server side of a simulated connection; ClientEnd is driven by harness tasks.

type addr string

func (a addr) Network() string { return "sim" }
func (a addr) String() string  { return string(a) }

type Conn struct {
	name      string
	in        []byte  // client -> server, not yet read
	inClosed  bool    // client closed / half-closed its sending side
	out       []byte  // server -> client
	outClosed bool    // server closed
	outSeq    []int64 // step at which each out chunk was written (per Write call)
	outLens   []int
	BytesIn   int64
	ReadCalls int64
	reading   bool
}

type ClientEnd struct{ c *Conn }

func Pipe(name string) (*Conn, *ClientEnd) {
	c := &Conn{name: name}
	return c, &ClientEnd{c}
}

func (c *Conn) Read(p []byte) (int, error) {
	w := active()
	c.ReadCalls++
	if w != nil {
		w.yield("conn-read")
		for len(c.in) == 0 && !c.inClosed && !c.outClosed {
			c.reading = true
			w.block("conn-read:"+c.name, func() bool { return len(c.in) > 0 || c.inClosed || c.outClosed })
			c.reading = false
		}
	}
	if len(c.in) == 0 {
		return 0, io.EOF
	}
	n := copy(p, c.in)
	c.in = c.in[n:]
	return n, nil
}

// Write never blocks and is not a scheduling point (the order in which a reply's chunks are
// produced may depend on Go map iteration; making it a scheduling point would leak that
// nondeterminism into the schedule).
func (c *Conn) Write(p []byte) (int, error) {
	if c.outClosed {
		return 0, io.ErrClosedPipe
	}
	c.out = append(c.out, p...)
	return len(p), nil
}

func (c *Conn) Close() error {
	c.outClosed = true
	return nil
}

func (c *Conn) LocalAddr() net.Addr                { return addr("server") }
func (c *Conn) RemoteAddr() net.Addr               { return addr(c.name) }
func (c *Conn) SetDeadline(t time.Time) error      { return nil }
func (c *Conn) SetReadDeadline(t time.Time) error  { return nil }
func (c *Conn) SetWriteDeadline(t time.Time) error { return nil }

// BlockedInRead reports whether the server task is parked in Read with nothing to read.
func (c *Conn) BlockedInRead() bool { return c.reading && len(c.in) == 0 && !c.inClosed }

// Blocked reports whether the server would block in Read now (idle connection).
func (c *Conn) WantsInput() bool { return len(c.in) == 0 && !c.inClosed && !c.outClosed }

// Deliver hands bytes to the server side (no scheduling point).
func (e *ClientEnd) Deliver(p []byte) {
	e.c.in = append(e.c.in, p...)
	e.c.BytesIn += int64(len(p))
}

// CloseWrite closes the client's sending side: the server reads EOF after the buffered bytes.
func (e *ClientEnd) CloseWrite() { e.c.inClosed = true }

func (e *ClientEnd) ServerClosed() bool { return e.c.outClosed }
func (e *ClientEnd) Pending() int       { return len(e.c.in) }

// Take returns and consumes everything the server has written so far.
func (e *ClientEnd) Take() []byte {
	b := e.c.out
	e.c.out = nil
	return b
}

// Peek returns what the server has written so far without consuming it.
func (e *ClientEnd) Peek() []byte { return e.c.out }
func (e *ClientEnd) Conn() *Conn  { return e.c }
