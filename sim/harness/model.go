package main

import (
	"bytes"
	"fmt"
	"strconv"
)

// Reference model: a plain map with the documented version arithmetic. Where the property
// statements allow more than one outcome (tombstones dropped by an index rebuild, version of
// an index-only revision change, version after incr on a tombstone) a key holds a small set
// of alternatives, narrowed by every observation; an observation matching no alternative is
// a violation.

type Alt struct {
	Ver     int32 // 0 = absent, >0 live, <0 tombstone
	Val     []byte
	Flag    uint32
	WriteID int   // op id of the write that produced Val
	DataVer int32 // version stored in the newest data record (differs from Ver after an index-only change)
	TSLo, TSHi int64
}

func (a Alt) live() bool { return a.Ver > 0 }

type KeyModel struct {
	Key     []byte
	Alts    []Alt
	Writes  []WriteRec // all accepted writes, for durability / attribution reasoning
	Collide bool       // member of a forced hash-collision group: versions not compared
	Unserved bool
}

type WriteRec struct {
	ID   int
	Ver  int32
	Val  []byte // nil for tombstone
	Flag uint32
	Tomb bool
}

type Model struct {
	Keys       []*KeyModel
	CheckVHash bool
}

func NewModel(keys [][]byte, checkVHash bool) *Model {
	m := &Model{CheckVHash: checkVHash}
	for _, k := range keys {
		m.Keys = append(m.Keys, &KeyModel{Key: k, Alts: []Alt{{}}})
	}
	return m
}

func abs32(x int32) int32 {
	if x < 0 {
		return -x
	}
	return x
}

func dedupAlts(as []Alt) []Alt {
	var out []Alt
	for _, a := range as {
		dup := false
		for _, b := range out {
			if a.Ver == b.Ver && a.WriteID == b.WriteID && a.DataVer == b.DataVer && a.Flag == b.Flag {
				dup = true
				break
			}
		}
		if !dup {
			out = append(out, a)
		}
	}
	return out
}

// Set applies a set with revision rev (0 = auto). Status is always STORED for a valid key.
func (k *KeyModel) Set(m *Model, id int, val []byte, flag uint32, rev int32, now int64) {
	var out []Alt
	for _, a := range k.Alts {
		if m.CheckVHash && a.live() && refVHash(a.Val) == refVHash(val) {
			// same value hash: no data is written
			if rev > 0 && rev > abs32(a.Ver) {
				b := a
				b.Ver = rev // index-only version change
				out = append(out, b)
			} else {
				out = append(out, a)
			}
			continue
		}
		nv := rev
		if rev == 0 {
			nv = abs32(a.Ver) + 1
		} else if rev <= abs32(a.Ver) {
			out = append(out, a) // too small: ignored
			continue
		}
		out = append(out, Alt{Ver: nv, Val: val, Flag: flag, WriteID: id, DataVer: nv, TSLo: now, TSHi: now})
		k.Writes = append(k.Writes, WriteRec{ID: id, Ver: nv, Val: val, Flag: flag})
	}
	k.Alts = dedupAlts(out)
}

// Delete applies a delete whose observed reply was DELETED (deleted=true) or NOT_FOUND.
func (k *KeyModel) Delete(id int, now int64, deleted bool) (string, string) {
	var out []Alt
	for _, a := range k.Alts {
		if a.live() != deleted {
			continue
		}
		if a.live() {
			nv := -(a.Ver + 1)
			out = append(out, Alt{Ver: nv, WriteID: id, DataVer: nv, TSLo: now, TSHi: now})
			k.Writes = append(k.Writes, WriteRec{ID: id, Ver: nv, Tomb: true})
		} else {
			out = append(out, a)
		}
	}
	if len(out) == 0 {
		return "R-status", fmt.Sprintf("delete answered deleted=%v but model has %s", deleted, k.describe())
	}
	k.Alts = dedupAlts(out)
	return "", ""
}

// Incr applies an incr whose observed numeric reply was got.
func (k *KeyModel) Incr(id int, delta int64, now int64, got int64) (string, string) {
	var out []Alt
	add := func(a Alt) { out = append(out, a) }
	for _, a := range k.Alts {
		switch {
		case a.Ver <= 0:
			if got != delta {
				continue
			}
			v := []byte(strconv.FormatInt(delta, 10))
			vers := []int32{1}
			if a.Ver < 0 {
				// version after incr on a tombstone is undocumented: 1 or |old|+1
				vers = append(vers, abs32(a.Ver)+1)
			}
			for _, nv := range vers {
				add(Alt{Ver: nv, Val: v, Flag: flagIncr, WriteID: id, DataVer: nv, TSLo: now, TSHi: now})
				k.Writes = append(k.Writes, WriteRec{ID: id, Ver: nv, Val: v, Flag: flagIncr})
			}
		default:
			old, err := strconv.Atoi(string(a.Val))
			if a.Flag != flagIncr || len(a.Val) > 22 || err != nil {
				if got == 0 {
					add(a)
				}
				continue
			}
			nvv := int64(old) + delta
			if got != nvv {
				continue
			}
			v := []byte(strconv.FormatInt(nvv, 10))
			add(Alt{Ver: a.Ver + 1, Val: v, Flag: flagIncr, WriteID: id, DataVer: a.Ver + 1, TSLo: now, TSHi: now})
			k.Writes = append(k.Writes, WriteRec{ID: id, Ver: a.Ver + 1, Val: v, Flag: flagIncr})
		}
	}
	if len(out) == 0 {
		return "R-status", fmt.Sprintf("incr %d answered %d but model has %s", delta, got, k.describe())
	}
	k.Alts = dedupAlts(out)
	return "", ""
}

// Restart widens the state by what an index rebuild may legally do.
func (k *KeyModel) Restart() {
	var out []Alt
	for _, a := range k.Alts {
		out = append(out, a)
		if a.Ver < 0 {
			out = append(out, Alt{}) // tombstone dropped
		}
		if a.live() && a.DataVer != a.Ver {
			b := a
			b.Ver = a.DataVer
			out = append(out, b)
		}
	}
	k.Alts = dedupAlts(out)
}

type Obs struct {
	Kind  string // "miss", "value", "meta"
	Val   []byte
	Flag  uint64
	Ver   int64
	VHash int64
	Len   int64
	TS    int64
}

// ObserveGet narrows by the result of a get. Returns a rule id + text on mismatch.
func (k *KeyModel) ObserveGet(hit bool, val []byte, flag uint64) (string, string) {
	var keep []Alt
	for _, a := range k.Alts {
		if !hit && !a.live() {
			keep = append(keep, a)
		}
		if hit && a.live() && bytes.Equal(a.Val, val) && uint64(a.Flag) == flag {
			keep = append(keep, a)
		}
	}
	if len(keep) > 0 {
		k.Alts = keep
		return "", ""
	}
	// classify
	anyLive := false
	for _, a := range k.Alts {
		if a.live() {
			anyLive = true
		}
	}
	if !hit {
		return "R-miss-live", fmt.Sprintf("get missed but model has %s", k.describe())
	}
	if !anyLive {
		return "R-hit-deleted", fmt.Sprintf("get returned %d bytes but model has %s", len(val), k.describe())
	}
	for _, a := range k.Alts {
		if a.live() && bytes.Equal(a.Val, val) {
			return "R-flags", fmt.Sprintf("flags %d, model %s", flag, k.describe())
		}
	}
	for _, w := range k.Writes {
		if !w.Tomb && bytes.Equal(w.Val, val) {
			return "R-value-stale", fmt.Sprintf("get returned the value of write #%d (ver %d), model %s", w.ID, w.Ver, k.describe())
		}
	}
	return "R-value-unknown", fmt.Sprintf("get returned %d bytes %q that no write of this key produced; model %s", len(val), trunc(string(val), 40), k.describe())
}

// ObserveMeta narrows by a meta-get ("?key") result.
func (k *KeyModel) ObserveMeta(hit bool, ver int64, vhash int64, flag int64, length int64, ts int64, checkVer bool) (string, string) {
	var keep []Alt
	for _, a := range k.Alts {
		if !hit {
			if a.Ver == 0 {
				keep = append(keep, a)
			}
			continue
		}
		if a.Ver == 0 {
			continue
		}
		if checkVer && int64(a.Ver) != ver {
			continue
		}
		if (a.Ver > 0) != (ver > 0) {
			continue
		}
		if a.Ver > 0 {
			if int64(refVHash(a.Val)) != vhash || int64(a.Flag) != flag || int64(len(a.Val)) != length {
				continue
			}
		} else {
			if vhash != 0 || flag != 0 || length != 0 {
				continue
			}
		}
		keep = append(keep, a)
	}
	if len(keep) > 0 {
		k.Alts = keep
		return "", ""
	}
	return "R-meta", fmt.Sprintf("meta-get hit=%v ver=%d vhash=%d flag=%d len=%d ts=%d; model %s", hit, ver, vhash, flag, length, ts, k.describe())
}

func (k *KeyModel) describe() string {
	s := "{"
	for i, a := range k.Alts {
		if i > 0 {
			s += " | "
		}
		switch {
		case a.Ver == 0:
			s += "absent"
		case a.Ver < 0:
			s += fmt.Sprintf("tomb(ver %d by #%d)", a.Ver, a.WriteID)
		default:
			s += fmt.Sprintf("live(ver %d, %d bytes, flag %#x, write #%d)", a.Ver, len(a.Val), a.Flag, a.WriteID)
		}
	}
	return s + "}"
}

// anyLive / allLive helpers
func (k *KeyModel) allLive() bool {
	for _, a := range k.Alts {
		if !a.live() {
			return false
		}
	}
	return len(k.Alts) > 0
}
func (k *KeyModel) noneLive() bool {
	for _, a := range k.Alts {
		if a.live() {
			return false
		}
	}
	return true
}
