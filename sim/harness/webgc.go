package main

import (
	"fmt"
	"net/http"
	"net/http/httptest"
	"regexp"
	"strconv"
	"strings"

	"github.com/douban/gobeansdb/gobeansdb"
)

// GC requests reach a running server through its admin HTTP interface (gobeansdb/web.go:
// /gc/<hex bucket>?start=&end=&nogcdays=&merge=&run=&cancel=). In worlds drawn with GCWeb the
// harness issues its requests through the real handler (http.DefaultServeMux, in-process
// recorder: no socket, no goroutine) instead of calling HStore.GC directly, so that argument
// parsing, defaults and the pretend/run switch of the public entry point are part of what is
// simulated. The handler runs inside the calling harness task.

var reWebGC = regexp.MustCompile(`bucket (-?\d+), start (-?\d+), end (-?\d+), merge (true|false), pretend (true|false)`)

type webGCError struct{ s string }

func (e *webGCError) Error() string { return e.s }

// gcRequest issues one GC request, through the web handler when web is set.
func gcRequest(g *Gen, web bool, bucket, start, end, days int, merge, pretend bool) (begin, stop int, err error) {
	if !web {
		return g.H.GC(bucket, start, end, days, merge, pretend)
	}
	gobeansdb.VerifSetStorage(g.H)
	q := []string{}
	// the handler's defaults are -1 for the three numbers: leave a parameter out when it has
	// that value (both spellings must mean the same)
	if start != -1 || bucket%2 == 0 {
		q = append(q, "start="+strconv.Itoa(start))
	}
	if end != -1 || bucket%2 == 1 {
		q = append(q, "end="+strconv.Itoa(end))
	}
	if days != -1 {
		q = append(q, "nogcdays="+strconv.Itoa(days))
	}
	if merge {
		q = append(q, "merge=true")
	}
	if !pretend {
		q = append(q, "run=true")
	}
	url := fmt.Sprintf("/gc/%x?%s", bucket, strings.Join(q, "&"))
	rec := httptest.NewRecorder()
	http.DefaultServeMux.ServeHTTP(rec, httptest.NewRequest("GET", url, nil))
	body := rec.Body.String()
	if i := strings.Index(body, "\npanic:"); i >= 0 {
		panic(fmt.Sprintf("web request %s panicked: %s", url, trunc(body[i:], 1500)))
	}
	if i := strings.Index(body, "<p> err : "); i >= 0 {
		msg := body[i+len("<p> err : "):]
		if j := strings.Index(msg, " </p>"); j >= 0 {
			msg = msg[:j]
		}
		return 0, 0, &webGCError{msg}
	}
	m := reWebGC.FindStringSubmatch(body)
	if m == nil {
		panic(fmt.Sprintf("web request %s: unexpected answer %q", url, trunc(body, 300)))
	}
	begin, _ = strconv.Atoi(m[2])
	stop, _ = strconv.Atoi(m[3])
	if (m[5] == "true") != pretend || (m[4] == "true") != merge {
		return begin, stop, &webGCError{fmt.Sprintf("web request %s answered merge %s pretend %s", url, m[4], m[5])}
	}
	return begin, stop, nil
}

// gcCancel cancels the pass of a bucket, through the web handler when web is set.
func gcCancel(g *Gen, web bool, bucket int) {
	if !web {
		g.H.CancelGC(bucket)
		return
	}
	gobeansdb.VerifSetStorage(g.H)
	rec := httptest.NewRecorder()
	http.DefaultServeMux.ServeHTTP(rec, httptest.NewRequest("GET", fmt.Sprintf("/gc/%x?cancel=true", bucket), nil))
	if i := strings.Index(rec.Body.String(), "\npanic:"); i >= 0 {
		panic(fmt.Sprintf("web cancel request panicked: %s", trunc(rec.Body.String()[i:], 1500)))
	}
}
