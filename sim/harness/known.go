package main

import (
	"encoding/json"
	"os"
	"path/filepath"
	"regexp"
	"strings"
)

// Known findings: genuine defects of the code under test that are recorded, not repaired.
// The file is committed under /verif and never written at run time. An entry pins one
// specific failing pattern (rule id + message pattern), so that a different violation of
// the same property is still reported.
type KnownFinding struct {
	Property string `json:"property"`
	ID       string `json:"id"`
	Rule     string `json:"rule"`
	MsgRegex string `json:"msg_regex"`
	SubPrefix string `json:"sub_prefix"`
	What     string `json:"what"`
	re       *regexp.Regexp
}

type knownFile struct {
	Findings []KnownFinding `json:"findings"`
	Fixed    []string       `json:"fixed"`
}

var knownFindings []KnownFinding
var knownLoaded bool

func verifHome() string {
	if h := os.Getenv("VERIF_HOME"); h != "" {
		return h
	}
	return "/verif"
}

func loadKnown() {
	if knownLoaded {
		return
	}
	knownLoaded = true
	b, err := os.ReadFile(filepath.Join(verifHome(), "known_findings.json"))
	if err != nil {
		return
	}
	var kf knownFile
	if json.Unmarshal(b, &kf) != nil {
		return
	}
	for _, k := range kf.Findings {
		if k.MsgRegex != "" {
			k.re = regexp.MustCompile(k.MsgRegex)
		}
		knownFindings = append(knownFindings, k)
	}
}

// matchKnown returns the description of the known finding that this violation is an instance
// of, or "".
func matchKnown(v *Violation, p *Plan) string {
	loadKnown()
	for _, k := range knownFindings {
		if k.Property != v.Prop || k.Rule != v.Rule {
			continue
		}
		if k.re != nil && !k.re.MatchString(v.Msg) {
			continue
		}
		if k.SubPrefix != "" && !strings.HasPrefix(v.Sub, k.SubPrefix) {
			continue
		}
		return k.ID + ": " + k.What
	}
	return ""
}
