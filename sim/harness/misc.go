package main

import (
	"github.com/douban/gobeansdb/quicklz"
)

// storedValue returns the client-visible bytes of a stored record (decompressing with the
// repository's Go QuickLZ when the server-compress flag is set).
func storedValue(r refRecord) (val []byte, ok bool) {
	if r.Flag&flagServerCompress == 0 {
		return r.Val, true
	}
	v, err := quicklz.DecompressSafe(r.Val)
	if err != nil {
		return nil, false
	}
	return v, true
}

// installCollisions installs the hash override for C13 plans: designated keys of a group
// share the key hash of the group's first key.
func installCollisions(p *Plan) {
	hashOverride = nil
	if top, ok := p.Extra["bulkTop"]; ok {
		// concentrate every key under one 5-digit prefix (one leaf): leaf populations beyond the
		// C-accelerated search threshold (100) and the list-keys threshold (256)
		t := uint64(top) << 44
		hashOverride = func(key []byte) uint64 {
			return (refKeyHash(key) & 0x00000fffffffffff) | t
		}
		return
	}
	if len(p.Groups) == 0 {
		return
	}
	table := map[string]uint64{}
	for _, grp := range p.Groups {
		h := refKeyHash(p.Keys[grp[0]])
		for _, ki := range grp {
			table[string(p.Keys[ki])] = h
		}
	}
	hashOverride = func(key []byte) uint64 {
		if h, ok := table[string(key)]; ok {
			return h
		}
		return refKeyHash(key)
	}
}
