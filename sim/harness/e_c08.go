package main

import (
	"fmt"
	"os"
	"sort"

	simrt "github.com/douban/gobeansdb/zzsimrt"
)

// C08 engine. World A reaches some content through an arbitrary history (overwrites, deletes,
// restarts with index subsets removed, GC); world B reaches the same live content through a
// different, drawn history (permuted direct writes at the forced versions, redundant
// overwrites, delete-then-reset, a restart with the tree rebuilt). The complete listing walks
// of both worlds are compared: node-level replies exactly, item-level replies as sets of live
// entries. Inside world A the recomputation oracle (listing.go) runs at drawn steps too.

type content struct {
	K    int
	Ver  int32
	Val  []byte
	Flag uint32
}

func runC08(plan *Plan, tape *simrt.Tape) *Outcome {
	var walkA map[string]listing
	var live []content
	definite := true
	out := runSeqHooked(plan, tape, func(x *seqExec) {
		x.noFinalRestart = true
		x.finalHook = func() {
			x.doListing(plan.Seed ^ 0x1157)
			if x.viol != nil {
				return
			}
			x.verifyAll("pre-walk", false)
			if x.viol != nil {
				return
			}
			for k, km := range x.m.Keys {
				if km.Unserved || km.Collide {
					continue
				}
				if len(km.Alts) == 1 && km.Alts[0].live() {
					a := km.Alts[0]
					live = append(live, content{k, a.Ver, a.Val, a.Flag})
				} else {
					for _, a := range km.Alts {
						if a.live() {
							definite = false
						}
					}
				}
			}
			walkA = x.walkListing(600)
		}
	}, func(x *seqExec) {
		if x.viol != nil || walkA == nil || !definite {
			return
		}
		walkB := worldB(x, plan, live)
		if x.viol != nil || walkB == nil {
			return
		}
		comparePair(x, walkA, walkB)
		nt := len(live) >= 2 && len(walkA) >= 2
		x.nontrivial = &nt
		x.out.Probes["pair-listings-compared"] += int64(len(walkA))
	})
	return out
}

// worldB builds the same live content through a different history and walks its listing.
func worldB(x *seqExec, plan *Plan, live []content) map[string]listing {
	dir := mkWorldDir()
	defer os.RemoveAll(dir)
	cfg := plan.Cfg
	cfg.Background = false
	sim := NewSim(cfg, dir, x.sim.Tape)
	r := NewRng(plan.Seed ^ 0xb0b)
	order := r.Perm(len(live))
	var walk map[string]listing
	restartAt := -1
	if len(live) > 1 && r.Bool(1, 2) {
		restartAt = r.Intn(len(live))
	}
	y := &seqExec{plan: plan, out: x.out, sim: sim, lastHead: map[int]int{}}
	y.m = NewModel(plan.Keys, cfg.CheckVHash)
	pos := 0
	for gen := 0; gen < 2; gen++ {
		finished := false
		g, res := sim.Run(func(g *Gen) {
			y.g = g
			y.c = g.NewConn()
			for pos < len(order) {
				if gen == 0 && pos == restartAt {
					restartAt = -2
					g.H.Close()
					return
				}
				c := live[order[pos]]
				pos++
				key := string(plan.Keys[c.K])
				junk := []byte(fmt.Sprintf("junk-%d-%d", c.K, pos))
				switch {
				case c.Ver > 2 && r.Bool(1, 3):
					// delete then re-set at the forced version
					y.mustStatus(cmdSet("set", key, 0, 0, junk, false), "STORED")
					y.mustStatus(cmdDelete(key), "DELETED")
					x.out.probe("pair-delete-then-reset")
				case c.Ver > 1 && r.Bool(1, 2):
					// redundant overwrite below the final version
					y.mustStatus(cmdSet("set", key, 7, int64(c.Ver-1), junk, false), "STORED")
					x.out.probe("pair-redundant-overwrite")
				}
				y.mustStatus(cmdSet("set", key, uint64(c.Flag), int64(c.Ver), c.Val, false), "STORED")
				if y.viol != nil {
					return
				}
			}
			g.H.VerifFlush(true)
			walk = y.walkListing(600)
			g.H.Close()
			finished = true
		})
		if y.viol == nil && (g.OpenErr != nil || res.Status != simrt.StatusDone) {
			if res.Status == simrt.StatusStepCap {
				x.out.Inconclusive = "stepcap"
				return nil
			}
			y.fail("R-"+simrt.StatusName(res.Status), "world B: "+res.String())
		}
		if y.viol != nil {
			y.viol.Msg = "world B (same content, different history): " + y.viol.Msg
			x.viol = y.viol
			return nil
		}
		if finished {
			break
		}
		// restart of world B with the tree dump removed: rebuilt from hints
		for _, name := range sortedKeys(listFiles(dir)) {
			if fileClass(name) == "tree" {
				os.Remove(dir + "/" + name)
			}
		}
		x.out.probe("pair-restart-tree-rebuilt")
	}
	x.out.Steps += sim.Steps
	x.out.SimNS += sim.SimNS
	return walk
}

func (x *seqExec) mustStatus(cmd []byte, want string) {
	if x.viol != nil {
		return
	}
	r := x.reply(cmd)
	if x.viol == nil && r.Status != want {
		x.failSub("R-status", "pair", fmt.Sprintf("%q answered %s, expected %s", trunc(string(cmd), 50), r, want))
	}
}

func liveSet(l listing) map[refItem]bool {
	m := map[refItem]bool{}
	for _, it := range l.Items {
		if it.Ver > 0 {
			m[it] = true
		}
	}
	return m
}

func comparePair(x *seqExec, a, b map[string]listing) {
	keys := map[string]bool{}
	for k := range a {
		keys[k] = true
	}
	for k := range b {
		keys[k] = true
	}
	var ks []string
	for k := range keys {
		ks = append(ks, k)
	}
	sort.Strings(ks)
	for _, p := range ks {
		la, oka := a[p]
		lb, okb := b[p]
		if !oka || !okb {
			if len(a) >= 600 || len(b) >= 600 {
				continue // walk cut off by the cap
			}
			x.failSub("R-listing-pair", "shape", fmt.Sprintf("prefix @%s is reachable in only one of two stores with equal content (A:%v B:%v)", p, oka, okb))
			return
		}
		ka, kb := la.Kind, lb.Kind
		if ka == "empty" {
			ka = "items"
		}
		if kb == "empty" {
			kb = "items"
		}
		if ka != kb {
			x.failSub("R-listing-pair", "kind", fmt.Sprintf("prefix @%s: store A answers with %s, store B (same content) with %s", p, la.Kind, lb.Kind))
			return
		}
		if ka == "nodes" {
			for i := range la.Nodes {
				if la.Nodes[i] != lb.Nodes[i] {
					x.failSub("R-listing-pair", "node", fmt.Sprintf("prefix @%s child %x: store A (hash %d, count %d) vs store B with the same content (hash %d, count %d)",
						p, i, la.Nodes[i].Hash, la.Nodes[i].Count, lb.Nodes[i].Hash, lb.Nodes[i].Count))
					return
				}
			}
			continue
		}
		sa, sb := liveSet(la), liveSet(lb)
		for it := range sa {
			if !sb[it] {
				x.failSub("R-listing-pair", "item", fmt.Sprintf("prefix @%s: live entry %016x ver %d vhash %d only in store A", p, it.KeyHash, it.Ver, it.VHash))
				return
			}
		}
		for it := range sb {
			if !sa[it] {
				x.failSub("R-listing-pair", "item", fmt.Sprintf("prefix @%s: live entry %016x ver %d vhash %d only in store B", p, it.KeyHash, it.Ver, it.VHash))
				return
			}
		}
	}
}

func init() {
	engines["C08"] = engine{genSeqPlan, runC08}
}
