module verifharness

go 1.23

require (
	github.com/anishathalye/porcupine v1.3.0
	github.com/douban/gobeansdb v0.0.0
)

replace github.com/douban/gobeansdb => ../
