package main

type Rng struct{ x uint64 }

func NewRng(seed uint64) *Rng { return &Rng{seed*0x9e3779b97f4a7c15 + 0x1234567} }
func (s *Rng) U64() uint64 {
	s.x += 0x9e3779b97f4a7c15
	z := s.x
	z = (z ^ (z >> 30)) * 0xbf58476d1ce4e5b9
	z = (z ^ (z >> 27)) * 0x94d049bb133111eb
	return z ^ (z >> 31)
}
func (s *Rng) Intn(n int) int {
	if n <= 1 {
		return 0
	}
	return int(s.U64() % uint64(n))
}
func (s *Rng) Bool(num, den int) bool { return s.Intn(den) < num }
func (s *Rng) Pick(xs ...int) int     { return xs[s.Intn(len(xs))] }
func (s *Rng) Pick64(xs ...int64) int64 { return xs[s.Intn(len(xs))] }
func (s *Rng) Range(lo, hi int) int { // inclusive
	if hi <= lo {
		return lo
	}
	return lo + s.Intn(hi-lo+1)
}

// Weighted returns an index drawn according to weights.
func (s *Rng) Weighted(w []int) int {
	t := 0
	for _, x := range w {
		t += x
	}
	if t <= 0 {
		return 0
	}
	r := s.Intn(t)
	for i, x := range w {
		if r < x {
			return i
		}
		r -= x
	}
	return len(w) - 1
}

func (s *Rng) Perm(n int) []int {
	p := make([]int, n)
	for i := range p {
		p[i] = i
	}
	for i := n - 1; i > 0; i-- {
		j := s.Intn(i + 1)
		p[i], p[j] = p[j], p[i]
	}
	return p
}
