package main

import (
	"github.com/douban/gobeansdb/config"
	"github.com/douban/gobeansdb/store"
	simrt "github.com/douban/gobeansdb/zzsimrt"
)

// SimCfg is the per-world configuration swarm: store knobs and scheduler knobs.
type SimCfg struct {
	NumBucket     int
	Served        []int
	TreeHeight    int
	CheckVHash    bool
	DataFileMax   int64
	SplitCap      int64
	IndexInterval int64
	BufIOCap      int
	BodyMax       int64
	BodyInC       int64
	BodyBig       int64
	FlushMax      int64
	FlushInterval int
	FlushWake     int64
	TreeDump      int
	SecsBeforeDump int64
	NoGCDays      int
	MaxReq        int
	TimeoutMS     int
	MergeInterval int
	NoMerged      bool
	ListKeyThreshold uint32

	Policy     int
	PreemptDen int
	PCTDepth   int
	PCTSteps   int
	SpawnHold  int
	QuantumNS  int64
	FuncYield  bool
	StmtYield  bool
	BiasTag    string
	MaxSteps   int64
	Background bool // real Flusher + HintDumper loops run as tasks
	DumperSecs int
	GCWeb      bool // GC requests go through the admin HTTP handler (gobeansdb/web.go)
	StallDen   int  // stalled-thread fault: a client / GC task is stalled at a function entry with probability 1/StallDen (0 = off)
}

func (c *SimCfg) depth() int {
	switch c.NumBucket {
	case 16:
		return 1
	case 256:
		return 2
	}
	return 0
}

func (c *SimCfg) served(b int) bool {
	for _, x := range c.Served {
		if x == b {
			return true
		}
	}
	return false
}

// genCfg draws a configuration. small=true keeps limits tiny (crash enumeration worlds).
func genCfg(r *Rng, small bool) SimCfg {
	var c SimCfg
	c.NumBucket = r.Pick(1, 1, 16, 16, 16, 256)
	switch c.NumBucket {
	case 1:
		c.Served = []int{0}
	default:
		n := r.Pick(1, 1, 2, 3)
		seen := map[int]bool{}
		for len(c.Served) < n {
			b := r.Intn(c.NumBucket)
			if !seen[b] {
				seen[b] = true
				c.Served = append(c.Served, b)
			}
		}
	}
	maxH := 8 - c.depth()
	if maxH > 5 {
		maxH = 5
	}
	c.TreeHeight = r.Pick(2, 3, 3, 3, 4, 5)
	if small {
		c.TreeHeight = r.Pick(2, 3, 3)
	}
	if c.TreeHeight > maxH {
		c.TreeHeight = maxH
	}
	if c.TreeHeight >= 4 && len(c.Served) > 2 {
		c.Served = c.Served[:2]
	}
	c.CheckVHash = r.Bool(1, 2)
	c.DataFileMax = r.Pick64(768, 1024, 2048, 4096, 4096, 16384, 65536, 1<<20, 4000<<20)
	c.SplitCap = r.Pick64(2, 3, 4, 8, 16, 64, 1024)
	c.IndexInterval = r.Pick64(300, 512, 1024, 4096)
	c.BufIOCap = r.Pick(64, 256, 1024, 4096, 1<<16, 1<<20)
	c.BodyMax = r.Pick64(2048, 16384, 65536, 1<<20)
	if small {
		c.BodyMax = r.Pick64(2048, 16384)
	}
	c.BodyInC = r.Pick64(0, 0, 64, 4096)
	c.BodyBig = r.Pick64(1024, 1<<20)
	c.FlushMax = r.Pick64(4096, 100<<20)
	c.FlushInterval = r.Pick(1, 5, 60)
	c.FlushWake = r.Pick64(0, 1024, 10<<20)
	c.TreeDump = r.Pick(0, 1, 3)
	c.SecsBeforeDump = r.Pick64(0, 1, 5)
	c.NoGCDays = r.Pick(0, 0, 1, 7)
	c.MaxReq = r.Pick(1, 2, 16)
	c.TimeoutMS = 1 << 40 // protocol timeouts are a fault kind of C11/C12 only
	c.MergeInterval = r.Pick(1, 5)
	c.NoMerged = r.Bool(1, 2)
	c.ListKeyThreshold = uint32(r.Pick(256, 256, 4, 16))

	c.Policy = r.Pick(simrt.PolicyRandomWalk, simrt.PolicyRandomWalk, simrt.PolicyPCT, simrt.PolicySpawnDelay)
	c.PreemptDen = r.Pick(2, 8, 32, 128)
	c.PCTDepth = r.Pick(1, 2, 3)
	c.PCTSteps = r.Pick(200, 1000, 4000)
	c.SpawnHold = r.Pick(5, 50, 500, 5000)
	c.QuantumNS = r.Pick64(1000, 100000, 1000000, 10000000)
	c.FuncYield = r.Bool(1, 3)
	c.StmtYield = c.FuncYield && r.Bool(1, 3)
	c.MaxSteps = 400000
	if c.StmtYield {
		c.MaxSteps = 1600000
	}
	c.Background = r.Bool(3, 4)
	c.DumperSecs = r.Pick(1, 10, 60)
	c.GCWeb = r.Bool(1, 3)
	c.StallDen = r.Pick(0, 0, 40, 150, 600)
	c.normalize()
	return c
}

// normalize enforces the sanity constraints every real deployment satisfies: a data file
// can hold at least one record of maximal size (the defaults are 4000M vs 50M).
func (c *SimCfg) normalize() {
	min := (c.BodyMax + 250 + 24 + 255) &^ 255
	if c.DataFileMax < min {
		c.DataFileMax = min
	}
}

func (c *SimCfg) apply(home string) {
	hc := &store.HStoreConfig{}
	hc.InitDefault()
	hc.Home = home
	hc.NumBucket = c.NumBucket
	hc.BucketsStat = make([]int, c.NumBucket)
	for _, b := range c.Served {
		hc.BucketsStat[b] = 1
	}
	hc.TreeHeight = c.TreeHeight
	hc.TreeDump = c.TreeDump
	hc.CheckVHash = c.CheckVHash
	hc.DataFileMax = c.DataFileMax
	hc.SplitCap = c.SplitCap
	hc.IndexIntervalSize = c.IndexInterval
	hc.BufIOCap = c.BufIOCap
	hc.FlushInterval = c.FlushInterval
	hc.FlushWake = c.FlushWake
	hc.NoGCDays = c.NoGCDays
	hc.MergeInterval = c.MergeInterval
	hc.NoMerged = c.NoMerged
	hc.NotCompress = map[string]bool{"audio/wave": true, "audio/mpeg": true}
	if err := hc.InitTree(); err != nil {
		panic(err)
	}
	store.Conf = hc
	mc := config.DefaultMCConfig
	mc.MaxKeyLen = 250
	mc.MaxReq = c.MaxReq
	mc.BodyMax = c.BodyMax
	mc.BodyBig = c.BodyBig
	mc.BodyInC = c.BodyInC
	mc.FlushMax = c.FlushMax
	mc.TimeoutMS = c.TimeoutMS
	config.MCConf = mc
}

func (c *SimCfg) worldCfg(epoch int64) simrt.Config {
	return simrt.Config{
		Policy: c.Policy, PreemptDen: c.PreemptDen, PCTDepth: c.PCTDepth, PCTSteps: c.PCTSteps,
		SpawnHold: c.SpawnHold, QuantumNS: c.QuantumNS, MaxSteps: c.MaxSteps, FuncYield: c.FuncYield, StmtYield: c.StmtYield, BiasTag: c.BiasTag,
		EpochUnix: epoch,
	}
}
