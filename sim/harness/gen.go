package main

import "fmt"

const keyAlphabet = "abcdefghijklmnopqrstuvwxyzABCDEFGHIJKLMNOPQRSTUVWXYZ0123456789_-./:#%&*+=~|^!$()[]{}<>,;'\"`\\"

// (no Unicode white space or control characters: the store defines such keys as invalid)
var multiByte = []string{"é", "中", "ß", "\xff", "\x80", "\xfe\x9c", "ü"}

func genKeyBytes(r *Rng) []byte {
	var n int
	switch r.Intn(10) {
	case 0:
		n = 1
	case 1:
		n = 250
	case 2:
		n = r.Range(200, 250)
	case 3:
		n = r.Range(20, 120)
	default:
		n = r.Range(2, 14)
	}
	b := make([]byte, 0, n)
	for len(b) < n {
		if r.Intn(12) == 0 {
			m := multiByte[r.Intn(len(multiByte))]
			if len(b)+len(m) <= n {
				b = append(b, m...)
				continue
			}
		}
		b = append(b, keyAlphabet[r.Intn(len(keyAlphabet))])
	}
	if b[0] == '@' || b[0] == '?' {
		b[0] = 'k'
	}
	return b
}

func bucketOf(cfg *SimCfg, key []byte) int {
	h := refKeyHash(key)
	if hashOverride != nil {
		h = hashOverride(key)
	}
	switch cfg.NumBucket {
	case 16:
		return int(h >> 60)
	case 256:
		return int(h >> 56)
	}
	return 0
}

// genKeys draws nServed keys routed (by the reference key hash) into served buckets and
// nUnserved keys routed into buckets this server does not serve.
func genKeys(r *Rng, cfg *SimCfg, nServed, nUnserved int) [][]byte {
	var keys [][]byte
	seen := map[string]bool{}
	tries := 0
	if len(cfg.Served) == 0 {
		nServed = 0
	}
	if len(cfg.Served) >= cfg.NumBucket {
		nUnserved = 0
	}
	for s, u := 0, 0; s < nServed || u < nUnserved; {
		tries++
		if tries > 2000000 {
			panic("genKeys: cannot find keys")
		}
		k := genKeyBytes(r)
		if seen[string(k)] {
			continue
		}
		if cfg.served(bucketOf(cfg, k)) {
			if s < nServed {
				s++
				seen[string(k)] = true
				keys = append(keys, k)
			}
		} else if u < nUnserved {
			u++
			seen[string(k)] = true
			keys = append(keys, k)
		}
		if cfg.NumBucket == 1 {
			u = nUnserved
		}
	}
	// shuffle so that unserved keys are not always last
	for i := len(keys) - 1; i > 0; i-- {
		j := r.Intn(i + 1)
		keys[i], keys[j] = keys[j], keys[i]
	}
	return keys
}

// genValSpec draws a value: sizes straddle the 256-byte block and the 10 KB compression-probe
// boundaries, content classes cover compressible / incompressible / sniffed media.
func genValSpec(r *Rng, cfg *SimCfg, keyLen int, bias int) ValSpec {
	var v ValSpec
	v.Class = r.Pick(VConst, VPeriodic, VText, VText, VRandom, VRandom, VWav, VMpeg, VMixed)
	v.Seed = uint32(r.U64())
	max := int(cfg.BodyMax)
	pick := r.Intn(20)
	if bias == 1 { // compression thresholds
		pick = r.Pick(3, 4, 5, 6, 7, 8, 9, 10)
	}
	switch {
	case pick == 0:
		v.Len = 0
	case pick <= 2:
		v.Len = r.Range(1, 40)
	case pick <= 4: // record size around one block
		v.Len = 256 - 24 - keyLen + r.Range(-2, 2)
	case pick <= 5: // two / three blocks
		v.Len = 256*r.Range(2, 3) - 24 - keyLen + r.Range(-1, 1)
	case pick <= 7: // compression probe boundary
		v.Len = 10240 + r.Range(-2, 2)
	case pick <= 8:
		v.Len = r.Range(257, 3000)
	case pick <= 9:
		v.Len = r.Range(10243, 40000)
	case pick <= 10:
		v.Len = max - r.Intn(3)
	default:
		v.Len = r.Range(1, 200)
	}
	if v.Len < 0 {
		v.Len = 0
	}
	if v.Len > max {
		v.Len = max
	}
	if r.Intn(40) == 0 {
		v.Class = VZeroHash
		if v.Len > 2000 {
			v.Len = 2000
		}
	}
	return v
}

func genFlag(r *Rng) uint32 {
	switch r.Intn(8) {
	case 0:
		return flagClientCompress
	case 1:
		return flagIncr
	case 2:
		return uint32(r.U64()) &^ flagServerCompress
	case 3:
		return uint32(r.Intn(1024))
	}
	return 0
}

func addBucket(l []int, b int) []int {
	for _, x := range l {
		if x == b {
			return l
		}
	}
	return append(l, b)
}

type seqWeights struct {
	set, del, incr, get, mget, meta, meta2, flush, tick, dump, advance, restart, gc, listing, merge int
}

// genSeqPlan draws a single-client history with environment events (and, depending on the
// property, restarts, index-file deletion, GC, forced hash collisions).
func genSeqPlan(prop string, seed uint64, tier string) *Plan {
	r := NewRng(seed)
	p := &Plan{Prop: prop, Seed: seed, Extra: map[string]int64{}}
	p.Cfg = genCfg(r, false)
	c := &p.Cfg
	w := seqWeights{set: 35, del: 10, incr: 7, get: 20, mget: 5, meta: 8, meta2: 3, flush: 5, tick: 3, dump: 3, advance: 3}
	nOps := r.Range(5, 80)
	nKeys := r.Range(3, 12)
	bias := 0
	switch prop {
	case "C02":
		w.restart = 5
		if r.Bool(1, 3) {
			// "any history" includes GC passes: a third of the C02 worlds are laid out like C03
			// worlds (several small data files, GC requests, the GC scenario template)
			p.Extra["gcHistory"] = 1
			w.gc = 3
			w.set = 45
			w.del = 14
			nOps = r.Range(20, 90)
			c.BodyMax = r.Pick64(300, 512, 1024, 2048)
			c.DataFileMax = r.Pick64(768, 1024, 1024, 2048, 4096, 8192)
			if r.Bool(1, 2) {
				c.DataFileMax = c.BodyMax + r.Pick64(1024, 2048, 4096)
			}
			c.NoGCDays = 0
		}
	case "C03", "C18", "C07":
		w.restart = 2
		if prop == "C07" {
			w.restart = 6 // a restart leaves a short data file behind: "append to an earlier non-full file" destinations
		}
		w.gc = 4
		w.set = 45
		w.del = 14
		nOps = r.Range(20, 90)
		c.BodyMax = r.Pick64(300, 512, 1024, 2048)
		c.DataFileMax = r.Pick64(768, 1024, 1024, 2048, 4096, 8192)
		if r.Bool(1, 2) {
			// room for "append to the nearest earlier non-full file"
			c.DataFileMax = c.BodyMax + r.Pick64(1024, 2048, 4096)
		}
		c.NoGCDays = 0
	case "C09":
		w.set = 60
		w.del = 10
		w.incr = 5
		w.advance = 8
		w.get, w.mget, w.meta, w.meta2 = 5, 1, 2, 2
		nOps = r.Range(3, 45)
		c.DataFileMax = r.Pick64(4096, 16384, 65536, 1<<20)
		c.BodyMax = r.Pick64(512, 2048, 16384)
	case "C17":
		w.restart = 1
		w.gc = 12
		w.set = 45
		w.del = 8
		w.advance = 8
		nOps = r.Range(20, 90)
		c.BodyMax = r.Pick64(300, 512, 1024)
		c.DataFileMax = r.Pick64(768, 1024, 2048, 4096)
		if r.Bool(1, 2) {
			c.DataFileMax = c.BodyMax + r.Pick64(1024, 2048, 4096)
		}
		c.NoGCDays = r.Pick(0, 0, 1, 7)
	case "C13":
		w.restart = 4
		w.gc = 3
		nKeys = r.Range(5, 12)
		c.DataFileMax = r.Pick64(1024, 2048, 4096, 65536)
		c.NoGCDays = 0
	case "C15":
		c.NumBucket = r.Pick(1, 16, 16, 256, 256)
		c.Served = nil
		if c.NumBucket == 1 {
			c.Served = []int{0}
		} else {
			switch r.Intn(4) {
			case 0: // none
			case 1:
				c.Served = []int{r.Intn(c.NumBucket)}
			case 2:
				n := r.Range(2, 4)
				seen := map[int]bool{}
				for len(c.Served) < n {
					b := r.Intn(c.NumBucket)
					if !seen[b] {
						seen[b] = true
						c.Served = append(c.Served, b)
					}
				}
			case 3: // all (16 only, to bound cost)
				if c.NumBucket == 16 {
					for b := 0; b < 16; b++ {
						c.Served = append(c.Served, b)
					}
					c.TreeHeight = r.Pick(2, 3)
				} else {
					c.Served = []int{r.Intn(256), r.Intn(256)}
					if c.Served[0] == c.Served[1] {
						c.Served = c.Served[:1]
					}
				}
			}
		}
		if c.TreeHeight > 8-c.depth() {
			c.TreeHeight = 8 - c.depth()
		}
		w.restart = 2
		w.listing = 6
		nKeys = r.Range(6, 20)
	case "C10":
		bias = 1
		w.restart = 3
		w.gc = 2
		w.set = 50
		c.BodyMax = r.Pick64(65536, 1<<20)
		c.DataFileMax = r.Pick64(65536, 1<<20, 4000<<20)
		nOps = r.Range(5, 40)
	case "C08":
		w.listing = 10
		w.restart = 3
		w.gc = 2
		nKeys = r.Range(4, 30)
	}
	// OOM refusals are outside the quantifier of the sequential properties (and desynchronise
	// the connection, see DESIGN section 11): keep the thresholds out of reach here.
	c.FlushMax = 100 << 20
	c.BodyBig = 1 << 20
	c.normalize()
	nUnserved := 0
	if c.NumBucket > 1 && r.Bool(1, 2) {
		nUnserved = r.Range(1, 2)
	}
	if prop == "C15" && c.NumBucket > 1 {
		nUnserved = r.Range(2, 5)
	}
	nServed := nKeys
	if len(c.Served) == 0 {
		nServed = 0
		if nUnserved == 0 {
			nUnserved = 4
		}
	}
	bulk := 0
	if prop == "C08" && len(c.Served) > 0 && r.Bool(1, 5) {
		// bulk world: 110..330 keys forced into one leaf
		bulk = r.Pick(110, 150, 260, 330)
		b := c.Served[0]
		top := uint64(r.Intn(1 << 20))
		switch c.NumBucket {
		case 16:
			top = top&0x0ffff | uint64(b)<<16
		case 256:
			top = top&0x00fff | uint64(b)<<12
		}
		p.Extra["bulkTop"] = int64(top)
		nServed = bulk
		nUnserved = 0
		c.Served = []int{b}
		c.DataFileMax = r.Pick64(1<<20, 4000<<20)
		c.normalize()
	}
	if bulk > 0 {
		// with the override every key is routed to the chosen bucket
		seen := map[string]bool{}
		for len(p.Keys) < bulk {
			k := genKeyBytes(r)
			if len(k) > 40 {
				k = k[:40]
			}
			if !seen[string(k)] {
				seen[string(k)] = true
				p.Keys = append(p.Keys, k)
			}
		}
	} else {
		p.Keys = genKeys(r, c, nServed, nUnserved)
	}
	if prop == "C13" && len(p.Keys) >= 4 {
		// 1..3 groups of 2..4 keys forced onto one key hash (all in served buckets: the group
		// takes the hash, hence the bucket, of its first key)
		var servedKeys []int
		for i, k := range p.Keys {
			if c.served(bucketOf(c, k)) {
				servedKeys = append(servedKeys, i)
			}
		}
		perm := r.Perm(len(servedKeys))
		ng := r.Range(1, 3)
		pos := 0
		for gi := 0; gi < ng; gi++ {
			sz := r.Range(2, 4)
			if pos+sz > len(perm) {
				break
			}
			var grp []int
			for j := 0; j < sz; j++ {
				grp = append(grp, servedKeys[perm[pos+j]])
			}
			pos += sz
			p.Groups = append(p.Groups, grp)
		}
	}
	if prop == "C13" && len(p.Groups) > 0 && r.Bool(1, 3) {
		p.Extra["benignCollide"] = 1
		c.CheckVHash = false
		// (automatic hint merges: see genConcPlan)
		if r.Bool(1, 6) {
			p.Extra["autoMerge"] = 1
			c.MergeInterval = 1
		} else {
			c.MergeInterval = 1000
		}
	}
	restarts := 0
	earlyRestart := 0
	if r.Bool(1, 2) {
		earlyRestart = r.Range(1, 5)
	}
	switch prop {
	case "C02", "C03", "C13", "C18", "C06", "C08":
		w.merge = 2
	}
	reroute := 0
	if prop == "C15" && c.NumBucket > 1 {
		reroute = 3
	}
	weights := []int{w.set, w.del, w.incr, w.get, w.mget, w.meta, w.meta2, w.flush, w.tick, w.dump, w.advance, w.restart, w.gc, w.listing, w.merge, reroute}
	kinds := []string{"set", "del", "incr", "get", "mget", "meta", "meta2", "flush", "tick", "dump", "advance", "restart", "gc", "list", "merge", "reroute"}
	curRoute := append([]int(nil), c.Served...)
	idBase := 0
	if bulk > 0 {
		for k := 0; k < bulk; k++ {
			idBase++
			p.Ops = append(p.Ops, Op{ID: idBase, Kind: "set", K: k, V: ValSpec{Class: VConst, Len: r.Range(8, 20), Seed: uint32(r.U64())}})
		}
	}
	if (prop == "C03" || prop == "C18" || prop == "C07" || prop == "C13" || prop == "C08" || prop == "C17" || (prop == "C02" && p.Extra["gcHistory"] == 1)) && len(c.Served) > 0 && p.Extra["benignCollide"] == 0 && r.Bool(2, 5) {
		// scenario template: short first file, overwrites/deletes of its keys in later files, a
		// restart that rebuilds the tree (tombstones leave the index), a pass that does not start
		// at file 0, a restart with rebuilt indexes, then the usual random tail
		id := idBase
		add := func(op Op) { id++; op.ID = id; p.Ops = append(p.Ops, op) }
		small := func(k int) Op {
			return Op{Kind: "set", K: k, V: ValSpec{Class: r.Pick(VConst, VText, VRandom), Len: r.Pick(8, 10, 40, 200, 230), Seed: uint32(r.U64())}}
		}
		nk := len(p.Keys)
		for j := r.Range(1, 5); j > 0; j-- {
			add(small(r.Intn(nk)))
		}
		add(Op{Kind: "restart", Del: []string{"tree"}, DelSeed: uint32(r.U64())})
		mid := r.Range(2, 12)
		long := r.Bool(1, 3)
		if long {
			// several rotated (full) files above the short first one: a pass starting at file 2 or 3 must
			// rewrite in place, not append below the full file under its range
			mid = r.Range(10, 30)
		}
		for j := mid; j > 0; j-- {
			k := r.Intn(nk)
			switch r.Intn(4) {
			case 0:
				add(Op{Kind: "del", K: k})
			case 1:
				o := small(k)
				o.V.Len = int(c.BodyMax) - r.Intn(3)
				add(o)
			default:
				add(small(k))
			}
		}
		add(Op{Kind: "restart", Del: [][]string{{"tree"}, {"tree", "hint"}, {"tree", "merged"}, {}}[r.Intn(4)], DelSeed: uint32(r.U64())})
		for j := r.Range(0, 4); j > 0; j-- {
			add(small(r.Intn(nk)))
		}
		gcStart, gcEnd := r.Pick(1, 1, 1, 0, -1, 2), r.Pick(-1, -1, 1, 2, 5)
		if long {
			gcStart, gcEnd = r.Pick(2, 2, 3, 1, 4), r.Pick(-1, -1, 2, 3, 5)
		}
		tgc := Op{Kind: "gc", GCBucket: c.Served[r.Intn(len(c.Served))], GCStart: gcStart, GCEnd: gcEnd, GCDays: 0, Merge: r.Bool(1, 2)}
		if prop == "C03" && r.Bool(1, 5) {
			tgc.CancelAt = r.Pick(1, 2, 3, 5, 8)
		}
		add(tgc)
		for j := r.Range(0, 3); j > 0; j-- {
			add(small(r.Intn(nk)))
		}
		add(Op{Kind: "restart", Del: [][]string{{"tree", "hint"}, {"tree"}, {"tree", "hint", "merged"}, {"some"}}[r.Intn(4)], DelSeed: uint32(r.U64())})
		idBase = id
		restarts = 3
		p.Extra["scenario"] = 1
	}
	if prop == "C13" && p.Extra["benignCollide"] == 1 && len(p.Groups) > 0 && r.Bool(1, 2) {
		// GC *without* hint merging is not safe for colliding keys in general (recorded finding
		// KF-C13-collide-gc), but by design it is in two situations, which these templates build:
		// T1 the newer key of an undiscovered collision still has its hint item in a memory buffer
		//    when the chunk of the older key is collected (the pass finds the hash there and keeps
		//    the record "by guess");
		// T2 the hash is a registered collision and a third key joined it later (hash known, key
		//    unknown: kept "by guess").
		id := idBase
		add := func(op Op) { id++; op.ID = id; p.Ops = append(p.Ops, op) }
		small := func(k int) Op {
			return Op{Kind: "set", K: k, Verb: "set", V: ValSpec{Class: r.Pick(VConst, VText, VRandom), Len: r.Pick(8, 10, 40, 200), Seed: uint32(r.U64())}}
		}
		grp := p.Groups[r.Intn(len(p.Groups))]
		inGroup := map[int]bool{}
		for _, g := range p.Groups {
			for _, k := range g {
				inGroup[k] = true
			}
		}
		var others []int
		for k := range p.Keys {
			if !inGroup[k] && c.served(bucketOf(c, p.Keys[k])) {
				others = append(others, k)
			}
		}
		filler := func() {
			if len(others) > 0 {
				add(small(others[r.Intn(len(others))]))
			}
		}
		b := bucketOf(c, p.Keys[grp[0]])
		c.Background = false
		for j := r.Range(0, 3); j > 0; j-- {
			filler()
		}
		if r.Bool(1, 4) && len(others) >= 2 {
			// T4: the colliding key is set *after* the pass has begun, live traffic then rotates the
			// head file and the hint dumper ticks - the pass must still find the newer key's hash in
			// a memory buffer (it forbids dumping the chunks above its range) and keep the older key
			A, B := grp[0], grp[1]
			c.BodyMax = 512
			c.DataFileMax = r.Pick64(1024, 2048)
			c.SecsBeforeDump = 0
			// (no hint split may fill up during the template: a full split is rotated and dumped at
			// once, whatever the pass forbids - with the default capacity of 1M items that takes a
			// chunk of a million keys; part of the recorded finding KF-C13-collide-gc)
			c.SplitCap = 1024
			c.normalize()
			perFile := int(c.DataFileMax / 256)
			add(small(A))
			filler()
			add(Op{Kind: "restart", DelSeed: uint32(r.U64())})
			var tr []Op
			tid := 700000
			addT := func(op Op) { tid++; op.ID = tid; tr = append(tr, op) }
			addT(small(B))
			for j := 0; j < perFile+1; j++ {
				addT(small(others[j%len(others)]))
			}
			addT(Op{Kind: "tick"})
			addT(Op{Kind: "dump"})
			add(Op{Kind: "gc", GCBucket: b, GCStart: 0, GCEnd: 0, GCDays: 0, Merge: false, Traffic: tr})
			add(Op{Kind: "get", K: A})
			add(Op{Kind: "get", K: B})
			p.Extra["gcTemplate"] = 4
		} else if r.Bool(1, 3) {
			// T3: the key that owns the shared tree slot (the one written last) is deleted - a delete
			// of the slot owner is handled like any delete - and the chunk of the other key is
			// collected, with or without merging: the other key must survive
			A, B := grp[0], grp[1]
			add(small(A))
			filler()
			add(small(B))
			if r.Bool(1, 2) {
				add(Op{Kind: "restart", DelSeed: uint32(r.U64())})
			}
			add(Op{Kind: "del", K: B})
			add(Op{Kind: "restart", DelSeed: uint32(r.U64())})
			add(Op{Kind: "gc", GCBucket: b, GCStart: 0, GCEnd: r.Pick(0, -1), GCDays: 0, Merge: r.Bool(1, 2)})
			add(Op{Kind: "get", K: A})
			add(Op{Kind: "get", K: B})
			p.Extra["gcTemplate"] = 3
			// (no random tail: once a colliding key has been deleted, later index rebuilds drop its
			// tombstone and the recorded findings can act again)
			nOps = 0
		} else if len(grp) >= 3 && r.Bool(1, 2) {
			A, B, C := grp[0], grp[1], grp[2]
			add(small(A))
			filler()
			add(small(B))
			add(Op{Kind: "get", K: A}) // discovers and registers the collision of A and B
			add(small(C))
			add(small(B))
			add(Op{Kind: "restart", DelSeed: uint32(r.U64())})
			add(Op{Kind: "gc", GCBucket: b, GCStart: 0, GCEnd: 0, GCDays: 0, Merge: false})
			add(Op{Kind: "get", K: C})
			add(Op{Kind: "get", K: A})
			add(Op{Kind: "get", K: B})
			p.Extra["gcTemplate"] = 2
		} else {
			A, B := grp[0], grp[1]
			add(small(A))
			filler()
			add(Op{Kind: "restart", DelSeed: uint32(r.U64())})
			if len(others) >= 2 && r.Bool(2, 3) {
				// B's chunk gets an older, already dumped hint split (a full split is rotated and
				// dumped) before B's item goes into the new in-memory split
				c.SplitCap = int64(r.Pick(2, 2, 3))
				if int(c.SplitCap) > len(others) {
					c.SplitCap = int64(len(others))
				}
				for j := 0; j < int(c.SplitCap); j++ {
					add(small(others[j]))
				}
				p.Extra["gcTemplateDumpedSplit"] = 1
			}
			add(small(B))
			add(Op{Kind: "gc", GCBucket: b, GCStart: 0, GCEnd: 0, GCDays: 0, Merge: false})
			add(Op{Kind: "get", K: A})
			add(Op{Kind: "get", K: B})
			p.Extra["gcTemplate"] = 1
		}
		add(Op{Kind: "restart", DelSeed: uint32(r.U64())})
		idBase = id
		restarts = 2
	}
	if (prop == "C03" || prop == "C07" || prop == "C18") && len(c.Served) > 0 && p.Extra["scenario"] == 0 && bulk == 0 && len(p.Ops) == 0 && r.Bool(1, 5) {
		// overflow template: a short file 0, a file 1 full of live records of distinct keys, a pass
		// over [1,1]: the destination (file 0, not full) fills up in the middle of file 1 and the
		// pass rotates onto the very file it is reading, which is rewritten in place from then on
		id := idBase
		add := func(op Op) { id++; op.ID = id; p.Ops = append(p.Ops, op) }
		c.BodyMax = 300
		c.DataFileMax = 2048
		c.normalize()
		b := c.Served[r.Intn(len(c.Served))]
		// distinct keys of that bucket
		var ks []int
		for i, k := range p.Keys {
			if bucketOf(c, k) == b && len(k) <= 60 {
				ks = append(ks, i) // (key <= 60 and value <= 120 bytes: every record is one 256-byte block)
			}
		}
		for tries := 0; len(ks) < 14 && tries < 4000; tries++ {
			k := genKeyBytes(r)
			if len(k) > 60 {
				k = k[:60]
			}
			dup := false
			for _, o := range p.Keys {
				if string(o) == string(k) {
					dup = true
				}
			}
			if !dup && bucketOf(c, k) == b {
				p.Keys = append(p.Keys, k)
				ks = append(ks, len(p.Keys)-1)
			}
		}
		if len(ks) >= 14 {
			one := func(k int) Op {
				return Op{Kind: "set", K: k, Verb: "set", V: ValSpec{Class: r.Pick(VConst, VText, VRandom), Len: r.Pick(8, 10, 40, 120), Seed: uint32(r.U64())}}
			}
			n0 := r.Range(2, 4)
			for j := 0; j < n0; j++ {
				add(one(ks[j]))
			}
			add(Op{Kind: "restart", Del: [][]string{{}, {"tree"}}[r.Intn(2)], DelSeed: uint32(r.U64())})
			for j := 0; j < 8; j++ {
				add(one(ks[n0+j]))
			}
			add(one(ks[n0+8]))
			if r.Bool(1, 2) {
				add(one(ks[n0+9]))
			}
			if r.Bool(2, 3) {
				// a clean restart leaves hint files for every data file, file 1 included
				add(Op{Kind: "restart", Del: [][]string{{}, {"tree"}}[r.Intn(2)], DelSeed: uint32(r.U64())})
			} else {
				add(Op{Kind: "flush"})
			}
			add(Op{Kind: "gc", GCBucket: b, GCStart: 1, GCEnd: 1, GCDays: 0, Merge: r.Bool(1, 2)})
			add(Op{Kind: "restart", Del: [][]string{{"tree"}, {"tree", "hint"}, {}}[r.Intn(3)], DelSeed: uint32(r.U64())})
			idBase = id
			restarts = 2
			p.Extra["overflowTemplate"] = 1
		}
	}
	if prop == "C17" && len(c.Served) > 0 && p.Extra["scenario"] == 0 && r.Bool(1, 4) {
		// age-limit template: the file following a range changes its first record (an in-place
		// pass drops a dead first record) between two requests that look at its age
		id := idBase
		add := func(op Op) { id++; op.ID = id; p.Ops = append(p.Ops, op) }
		small := func(k int) Op {
			return Op{Kind: "set", K: k, V: ValSpec{Class: r.Pick(VConst, VText, VRandom), Len: r.Pick(8, 10, 40, 200), Seed: uint32(r.U64())}}
		}
		nk := len(p.Keys)
		b := c.Served[r.Intn(len(c.Served))]
		perFile := int(c.DataFileMax / 256)
		if perFile > 12 {
			perFile = 12
		}
		// file 0: full
		for j := 0; j < perFile; j++ {
			add(small(r.Intn(nk)))
		}
		// file 1: a first record that dies later, then (days later) younger records
		victim := r.Intn(nk)
		add(small(victim))
		add(Op{Kind: "advance", D: r.Pick64(3, 4, 10) * 86400 * 1000})
		for j := 1; j < perFile; j++ {
			k := r.Intn(nk)
			if j == 1 || r.Bool(1, 4) {
				k = victim
			}
			add(small(k))
		}
		// head
		add(small(r.Intn(nk)))
		add(Op{Kind: "flush"})
		days := r.Pick(1, 2)
		add(Op{Kind: "gc", GCBucket: b, GCStart: 0, GCEnd: 0, GCDays: days, Merge: false, Pretend: r.Bool(1, 2)})
		add(Op{Kind: "gc", GCBucket: b, GCStart: 1, GCEnd: 1, GCDays: 0, Merge: r.Bool(1, 2)})
		add(Op{Kind: "advance", D: r.Pick64(2000, 3600*1000)})
		add(Op{Kind: "gc", GCBucket: b, GCStart: r.Pick(0, 0, -1), GCEnd: 0, GCDays: days, Merge: false})
		idBase = id
		p.Extra["ageTemplate"] = 1
	}
	for i := 0; i < nOps; i++ {
		op := Op{ID: idBase + i + 1}
		op.Kind = kinds[r.Weighted(weights)]
		op.K = r.Intn(len(p.Keys))
		switch op.Kind {
		case "set":
			op.V = genValSpec(r, c, len(p.Keys[op.K]), bias)
			op.Flag = genFlag(r)
			if op.Flag == flagIncr && r.Bool(3, 4) {
				op.V.Class = VNumber
			}
			if op.Flag == flagClientCompress && r.Bool(1, 2) {
				// what a client that compresses by itself really sends: a QuickLZ stream (or bytes
				// that look like one); the server must hand it back verbatim
				op.V.Class = r.Pick(VQlz, VQlz, VQlzStored)
				if op.V.Len > 20000 {
					op.V.Len = 20000
				}
			}
			op.Verb = []string{"set", "set", "set", "add", "replace", "cas"}[r.Intn(6)]
			switch r.Intn(6) {
			case 0:
				op.Rev = int32(r.Range(1, 12))
			case 1:
				op.Rev = int32(r.Pick(1, 2, 1000, 0x7ff00000, 65536))
			}
			if r.Bool(1, 6) && i > 0 {
				// re-use the value of an earlier set (same-value-hash path of check_vhash)
				for j := len(p.Ops) - 1; j >= 0; j-- {
					if p.Ops[j].Kind == "set" {
						op.V = p.Ops[j].V
						op.VID = p.Ops[j].vid() // value identity: bytes of that op
						if r.Bool(1, 2) {
							op.K = p.Ops[j].K
						}
						break
					}
				}
			}
		case "incr":
			op.Delta = int64(r.Pick(1, 1, 2, -1, 100, -7, 0, 1<<40))
		case "mget":
			n := r.Range(2, 5)
			for j := 0; j < n; j++ {
				op.Ks = append(op.Ks, r.Intn(len(p.Keys)))
			}
		case "advance":
			op.D = r.Pick64(1000, 2000, 6000, 61000, 3600*1000, 86400*1000*2)
			if prop == "C17" {
				op.D = r.Pick64(2000, 3600*1000, 86400*1000, 86400*1000*2, 86400*1000*8, 86400*1000*31)
			}
			if prop == "C09" {
				// spread record timestamps over the uint32 range
				op.D = r.Pick64(1000, 86400*1000, 86400*1000*365, 86400*1000*365*5, 86400*1000*365*20)
			}
		case "reroute":
			// a route change on the running process: drop a served bucket, add the bucket of a key, or both
			cur := append([]int(nil), curRoute...)
			if r.Bool(1, 2) && len(cur) > 0 {
				i := r.Intn(len(cur))
				cur = append(cur[:i], cur[i+1:]...)
			}
			if r.Bool(2, 3) {
				cur = addBucket(cur, bucketOf(c, p.Keys[r.Intn(len(p.Keys))]))
			}
			if len(cur) > 4 {
				cur = cur[:4]
			}
			op.Route = cur
			if op.Route == nil {
				op.Route = []int{}
			}
			curRoute = cur
		case "restart":
			if restarts >= 5 {
				op.Kind = "get"
				break
			}
			restarts++
			for _, cl := range []string{"tree", "hint", "merged"} {
				if r.Bool(1, 2) {
					op.Del = append(op.Del, cl)
				}
			}
			if r.Bool(1, 4) {
				op.Del = append(op.Del, "some")
			}
			op.DelSeed = uint32(r.U64())
			if (prop == "C02" || prop == "C08") && r.Bool(1, 5) {
				hasTree := false
				for _, d := range op.Del {
					if d == "tree" || d == "some" {
						hasTree = true
					}
				}
				if !hasTree {
					op.Del = append(op.Del, "trunc-tree")
				}
			}
			if prop == "C15" && c.NumBucket > 1 && r.Bool(2, 3) {
				// route change: drop a served bucket, add the bucket of one of the keys, or both
				cur := append([]int(nil), curRoute...)
				switch r.Intn(3) {
				case 0:
					if len(cur) > 0 {
						i := r.Intn(len(cur))
						cur = append(cur[:i], cur[i+1:]...)
					}
				case 1:
					cur = addBucket(cur, bucketOf(c, p.Keys[r.Intn(len(p.Keys))]))
				case 2:
					if len(cur) > 0 {
						i := r.Intn(len(cur))
						cur = append(cur[:i], cur[i+1:]...)
					}
					cur = addBucket(cur, bucketOf(c, p.Keys[r.Intn(len(p.Keys))]))
				}
				if len(cur) > 4 {
					cur = cur[:4]
				}
				op.Route = cur
				if op.Route == nil {
					op.Route = []int{}
				}
				curRoute = cur
			}
			if prop == "C08" && r.Bool(1, 2) {
				op.Kill = true
				if r.Bool(1, 2) {
					op.Del = nil // keep the (older) tree dump: newer hints are replayed on top of it
				}
			}
		case "gc":
			if len(c.Served) == 0 {
				op.Kind = "get"
				break
			}
			op.GCBucket = c.Served[r.Intn(len(c.Served))]
			op.GCStart = r.Pick(-1, 0, 0, 1, 2, 3)
			op.GCEnd = r.Pick(-1, -1, 0, 1, 2, 3, 5)
			op.GCDays = r.Pick(-1, 0, 0, 0)
			op.Merge = r.Bool(1, 2)
			op.Pretend = r.Bool(1, 10)
			if prop == "C03" && r.Bool(1, 4) {
				op.CancelAt = r.Pick(1, 2, 3, 5, 8)
			}
			if prop == "C17" {
				op.GCStart = r.Pick(-7, -1, -1, 0, 0, 1, 2, 3, 4, 6, 9, 997, 998, 5000)
				op.GCEnd = r.Pick(-3, -1, -1, 0, 1, 2, 3, 4, 6, 9, 997, 100000)
				op.GCDays = r.Pick(-1, -1, 0, 0, 1, 3, 7, 30)
				op.Pretend = r.Bool(1, 5)
			}
		case "list":
			op.Delta = int64(r.U64() >> 1)
		}
		if (prop == "C03" || prop == "C18" || prop == "C07" || prop == "C17") && earlyRestart > 0 && i == earlyRestart && op.Kind != "restart" {
			// an early restart leaves a short first data file behind: later passes that start above it
			// append to that earlier non-full file instead of rewriting in place
			p.Ops = append(p.Ops, Op{ID: 100000 + i, Kind: "restart", Del: []string{"tree"}, DelSeed: uint32(r.U64())})
			restarts++
		}
		if op.Kind == "gc" && (prop == "C03" || prop == "C18" || prop == "C07") && earlyRestart > 0 && r.Bool(1, 2) {
			op.GCStart = r.Pick(1, 1, 2)
		}
		if p.Extra["benignCollide"] == 1 {
			// benign collision world: no operation through which a *recorded* finding of C13 can
			// act (same-value shortcut, delete, incr, GC); what remains - sets, reads, flushes, hint
			// dumps and merges, restarts with rebuilt indexes - must work for colliding keys, and a
			// violation here is never absorbed as a known finding
			switch op.Kind {
			case "del", "incr":
				if r.Bool(1, 2) {
					op.Kind = "get"
				} else {
					op.Kind = "set"
					op.V = genValSpec(r, c, len(p.Keys[op.K]), bias)
					op.Flag, op.Rev, op.Verb = 0, 0, "set"
				}
			case "merge":
				// (the merge op calls hintMgr.Merge directly; the shipped code reaches a merge only
				// through GC with merge=on, its automatic start is dead code)
				op.Kind = "get"
			case "gc":
				// GC with hint merging registers every colliding key of the dumped hints in the
				// collision table before it starts: by design it is safe for colliding keys
				// (GC without merging is not: recorded finding KF-C13-collide-gc)
				op.Merge = true
				op.Pretend = false
			}
			if op.Kind == "set" {
				op.VID = 0 // every value unique
				if op.V.Len == 0 {
					op.V.Len = 1 + r.Intn(20) // (two empty values have equal bytes: not distinguishable)
				}
			}
		}
		if op.Kind == "set" && op.Rev != 0 {
			for _, grp := range p.Groups {
				for _, ki := range grp {
					if ki == op.K {
						op.Rev = 0 // versions of colliding keys are unspecified, so is the fate of an explicit revision
					}
				}
			}
		}
		p.Ops = append(p.Ops, op)
	}
	_ = fmt.Sprint
	return p
}
