package main

import (
	"encoding/json"
	"flag"
	"fmt"
	"os"
	"time"

	simrt "github.com/douban/gobeansdb/zzsimrt"
)

type engine struct {
	gen func(prop string, seed uint64, tier string) *Plan
	run func(p *Plan, tape *simrt.Tape) *Outcome
}

var engines = map[string]engine{}

func init() {
	for _, p := range []string{"C01", "C02", "C03", "C10", "C13", "C15", "C18"} {
		engines[p] = engine{genSeqPlan, runSeq}
	}
	// C13: one world in five is concurrent (clients setting and reading keys of one hash group
	// while collisions are being discovered), see genConcPlan
	engines["C13"] = engine{
		gen: func(prop string, seed uint64, tier string) *Plan {
			if seed%5 == 0 {
				return genConcPlan(prop, seed, tier)
			}
			return genSeqPlan(prop, seed, tier)
		},
		run: func(p *Plan, tape *simrt.Tape) *Outcome {
			if p.Extra["env"] == 1 {
				return runConc(p, tape)
			}
			return runSeq(p, tape)
		},
	}
}

// ReplayFile is what a violation is reported as: the plan, the tapes, and the violation.
type ReplayFile struct {
	Property  string
	Harness   string
	RepoTree  string
	Seed      uint64
	Plan      *Plan
	Sched     []int32
	Fault     []int32
	Violation *Violation
	Trace     []string
	Minimised bool
	MinStats  string `json:",omitempty"`
}

func runOne(prop string, seed uint64, tier string) (*Plan, *Outcome) {
	e := engines[prop]
	plan := e.gen(prop, seed, tier)
	tape := simrt.NewTape(seed)
	t0 := time.Now()
	out := e.run(plan, tape)
	out.WallMS = time.Since(t0).Milliseconds()
	return plan, out
}

func replayPlan(plan *Plan, sched, fault []int32) *Outcome {
	e := engines[plan.Prop]
	var vals [simrt.NumStreams][]int32
	vals[simrt.StreamSched] = sched
	vals[simrt.StreamFault] = fault
	tape := simrt.NewReplayTape(plan.Seed, vals)
	return e.run(plan, tape)
}

func main() {
	if len(os.Args) < 2 {
		fmt.Fprintln(os.Stderr, "usage: harness worker|replay|minimise|driver ...")
		os.Exit(2)
	}
	installHub()
	switch os.Args[1] {
	case "worker":
		workerMain(os.Args[2:])
	case "replay":
		replayMain(os.Args[2:])
	case "minimise":
		minimiseMain(os.Args[2:])
	case "driver":
		driverMain(os.Args[2:])
	case "selftest":
		selftestMain(os.Args[2:])
	default:
		fmt.Fprintln(os.Stderr, "unknown subcommand")
		os.Exit(2)
	}
}

// workerMain runs a contiguous range of world seeds and prints one JSON line per world.
func workerMain(args []string) {
	fs := flag.NewFlagSet("worker", flag.ExitOnError)
	prop := fs.String("prop", "C01", "property")
	seed := fs.Uint64("seed", 1, "base seed")
	from := fs.Int("from", 0, "first world index")
	n := fs.Int("n", 10, "number of worlds")
	tier := fs.String("tier", "quick", "tier")
	deadline := fs.Int64("deadline", 0, "unix seconds after which no new world is started")
	dumpLog := fs.Bool("log", false, "print canonical event log hash only")
	wseed := fs.Uint64("wseed", 0, "run exactly this world seed")
	fs.Parse(args)
	if _, ok := engines[*prop]; !ok {
		fmt.Fprintln(os.Stderr, "no engine for", *prop)
		os.Exit(2)
	}
	enc := json.NewEncoder(os.Stdout)
	for i := *from; i < *from+*n; i++ {
		if *deadline > 0 && time.Now().Unix() >= *deadline {
			break
		}
		ws := worldSeed(*seed, i)
		if *wseed != 0 {
			ws = *wseed
		}
		fmt.Printf("START %d %d\n", i, ws)
		plan, out := runOne(*prop, ws, *tier)
		if *dumpLog {
			vc := ""
			if out.Violation != nil {
				vc = out.Violation.Class() + ":" + out.Violation.Msg
			}
			fmt.Printf("LOG %d seed=%d ev=%s steps=%d sim=%d fs=%v probes=%v viol=%q inconcl=%q\n", i, ws, out.EvHash, out.Steps, out.SimNS, out.FS, out.Probes, trunc(vc, 200), out.Inconclusive)
			continue
		}
		if out.Violation != nil {
			rf := &ReplayFile{Property: *prop, Seed: ws, Plan: plan, Sched: out.Tapes[simrt.StreamSched], Fault: out.Tapes[simrt.StreamFault], Violation: out.Violation}
			b, _ := json.Marshal(rf)
			fmt.Printf("VIOL %d %s\n", i, b)
		}
		out.Tapes = [simrt.NumStreams][]int32{}
		fmt.Print("OUT ")
		enc.Encode(out)
	}
	fmt.Println("WORKER-END")
}

func worldSeed(base uint64, i int) uint64 {
	r := NewRng(base ^ (uint64(i)+1)*0x9e3779b97f4a7c15)
	return r.U64() >> 1
}

func replayMain(args []string) {
	fs := flag.NewFlagSet("replay", flag.ExitOnError)
	verbose := fs.Bool("v", false, "verbose")
	fs.Parse(args)
	if fs.NArg() != 1 {
		fmt.Fprintln(os.Stderr, "usage: harness replay <file>")
		os.Exit(2)
	}
	b, err := os.ReadFile(fs.Arg(0))
	if err != nil {
		fmt.Fprintln(os.Stderr, err)
		os.Exit(2)
	}
	var rf ReplayFile
	if err := json.Unmarshal(b, &rf); err != nil {
		fmt.Fprintln(os.Stderr, err)
		os.Exit(2)
	}
	if *verbose {
		theHub.verbose = true
	}
	out := replayPlan(rf.Plan, rf.Sched, rf.Fault)
	if out.Violation != nil {
		fmt.Printf("replayed: %s %s: %s\n", out.Violation.Prop, out.Violation.Rule, out.Violation.Msg)
		if rf.Violation != nil && out.Violation.Class() != rf.Violation.Class() {
			fmt.Printf("note: recorded violation class was %s\n", rf.Violation.Class())
		}
		if k := matchKnown(out.Violation, rf.Plan); k != "" {
			fmt.Printf("KNOWN-FINDING: property=%s %s\n", rf.Property, k)
			os.Exit(0)
		}
		fmt.Printf("VIOLATION property=%s replay=%s\n", rf.Property, fs.Arg(0))
		os.Exit(1)
	}
	fmt.Printf("replayed: no violation (%s)\n", out.Inconclusive)
	os.Exit(0)
}
