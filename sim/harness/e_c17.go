package main

import (
	"fmt"
	"path/filepath"
	"sort"
	"strings"

	simrt "github.com/douban/gobeansdb/zzsimrt"
)

// C17 eligibility oracles, evaluated on the disk-seam event log of the pass (events of the
// tasks spawned inside the GC request) and on before/after inventories.

func firstRecTS(data []byte) (uint32, bool) {
	if len(data) < recHdr {
		return 0, false
	}
	r, ok := refDecodeAt(data, 0, 250, 1<<30)
	if !ok {
		return 0, false
	}
	return r.TS, true
}

func (x *seqExec) ageLimit(op Op) int64 {
	d := op.GCDays
	if d < 0 {
		d = x.plan.Cfg.NoGCDays
	}
	return int64(d) * 86400
}

// checkRange: sanity of the resolved range against the request (written from the property
// text): inside the request, below the file receiving appends, start not empty.
func (x *seqExec) checkRange(op Op, begin, end, head int, before dataSnap, now int64) {
	if begin > end {
		x.failSub("R-gc-range", "order", fmt.Sprintf("%s resolved to [%d,%d]", op, begin, end))
		return
	}
	if end >= head {
		x.failSub("R-gc-range", "head", fmt.Sprintf("%s resolved to [%d,%d] but file %d is receiving appends", op, begin, end, head))
		return
	}
	if op.GCStart >= 0 && begin < op.GCStart {
		x.failSub("R-gc-range", "below-start", fmt.Sprintf("%s resolved to [%d,%d]", op, begin, end))
		return
	}
	if op.GCEnd >= 0 && end > op.GCEnd && op.GCEnd >= begin {
		x.failSub("R-gc-range", "above-end", fmt.Sprintf("%s resolved to [%d,%d]", op, begin, end))
		return
	}
	// age limit: the successor of the last file of the range must be older than the limit
	limit := x.ageLimit(op)
	succ := -1
	for id := end + 1; id <= head; id++ {
		if d, ok := before[fmt.Sprintf("%03d.data", id)]; ok && len(d) > 0 {
			succ = id
			break
		}
	}
	if succ >= 0 {
		ts, ok := firstRecTS(before[fmt.Sprintf("%03d.data", succ)])
		if ok && now-int64(ts) <= limit {
			x.failSub("R-gc-range", "age", fmt.Sprintf("%s resolved to [%d,%d] but the following file %d starts at ts %d, only %ds before now (limit %ds)",
				op, begin, end, succ, ts, now-int64(ts), limit))
			return
		}
		if ok {
			x.out.probe("gc-age-checked")
		}
	}
}

// checkEligibility: what the pass did to the disk.
func (x *seqExec) checkEligibility(op Op, begin, end, head int, before dataSnap, now int64) {
	earlier := map[int]bool{}
	for _, ev := range x.gcEvents {
		if !strings.HasSuffix(ev.Path, ".data") {
			continue
		}
		id := chunkOfName(ev.Path)
		name := filepath.Base(ev.Path)
		what := simrt.FSKindName(ev.Kind)
		switch {
		case id >= head:
			x.failSub("R-gc-touched-ineligible", "head", fmt.Sprintf("%s: %s on %s, the file receiving appends is %d", op, what, name, head))
			return
		case id > end:
			x.failSub("R-gc-touched-ineligible", "above", fmt.Sprintf("%s resolved to [%d,%d]: %s on %s", op, begin, end, what, name))
			return
		case id < begin:
			old := before[name]
			if len(old) == 0 && (ev.Kind == simrt.FSCreate || ev.Kind == simrt.FSWrite) {
				// an emptied slot below the range is filled with a fresh file: nothing that existed is
				// rewritten, truncated or removed
				x.out.probe("gc-filled-empty-slot-below-range")
				continue
			}
			if ev.Kind != simrt.FSWrite || ev.Off < int64(len(old)) {
				x.failSub("R-gc-touched-ineligible", "below", fmt.Sprintf("%s resolved to [%d,%d]: %s at offset %d on earlier file %s (size %d)", op, begin, end, what, ev.Off, name, len(old)))
				return
			}
			earlier[id] = true
		}
	}
	if len(earlier) > 1 {
		var ids []int
		for id := range earlier {
			ids = append(ids, id)
		}
		sort.Ints(ids)
		x.failSub("R-gc-touched-ineligible", "two-earlier", fmt.Sprintf("%s resolved to [%d,%d] appended to several earlier files %v", op, begin, end, ids))
		return
	}
	if len(earlier) == 1 {
		x.out.probe("gc-appended-to-earlier-file")
	}
	x.out.probe("gc-eligibility-checked")
}
