package main

import (
	"bytes"
	"fmt"
	"os"
	"path/filepath"
	"strings"
	"time"

	"github.com/anishathalye/porcupine"
	"github.com/douban/gobeansdb/cmem"
	"github.com/douban/gobeansdb/store"
	simrt "github.com/douban/gobeansdb/zzsimrt"
)

// Concurrency engine (C04, C05, C17 mutual exclusion): 2..16 client tasks on a small shared
// key set through HStore.Set/Get, real Flusher and HintDumper loops on the simulated clock, a
// time-warp task, rotation and split rotation by tiny limits; optionally one GC pass (C05) or
// two competing GC requests (C17). The recorded history is checked per key with porcupine
// against a register-with-version model.

type histOp struct {
	Client int
	Key    int
	Kind   string // set, del, get, meta
	WID    int    // set: write id (op id)
	VID    int    // set/bump: identity of the value bytes (id of the set that first carried them)
	Rev    int32  // bump: explicit revision
	Call   int64
	Ret    int64
	// outputs
	OutVer  int32
	OutWID  int  // get: id of the write whose bytes were returned (0 = miss)
	OutMiss bool
	OutNF   bool // delete: NOT_FOUND
	OutNoop bool // set under check_vhash with equal value hash: nothing written
	Err     string
	InGC    bool
}

type concExec struct {
	plan  *Plan
	out   *Outcome
	sim   *Sim
	g     *Gen
	viol  *Violation
	hist  []histOp
	seq   int64
	vals  map[string]int    // bytes -> write id (per key prefix)
	valOf map[int][]byte    // write id -> bytes
	keyOfW map[int]int
	gcActive int
	gcAccepted int
	gcTasks  []int
	degraded int
	lastFS   map[int]int64 // task id -> step of its last disk mutation
	injOps   []Op          // pre-generated writes that are placed inside GC's per-record window
	injNext  int
	injKey   int
	injReq   bool
	injBusy  bool
	injVal   []byte // bytes of the record the pass is relocating (for an injected same-value revision bump)
	// slow reader placed in GC's window: a get of the key being relocated looks the key up in the
	// index (old position), is then stalled while the pass repoints the key and goes on, and
	// reads the data file afterwards
	slowKey     int  // -1: no request
	slowStalled bool // the reader has reached its data read and is stalled (or is done)
	slowN       int
	gcWrites    int64 // data-file writes issued by GC passes so far
	rotatedAt   int64 // gcWrites when the destination was first seen rotated onto the source file
	cancelPlaced bool
	rotSeen      bool
	stormStop    bool
	stormLive    int
	firstDst     int
	slowPath    string // data file and offset of the record the slow reader looked up
	slowOff     int64
	slowCovered bool   // the pass has written a record over that position
	slowCoverNext bool
}

func (x *concExec) fail(rule, sub, msg string) {
	if x.viol == nil {
		if x.plan.Prop == "C13" && x.plan.Extra["autoMerge"] == 1 {
			// worlds in which the hint dumper may start a hint merge: recorded finding
			// KF-C13-collide-automerge can act
			sub = "collide-automerge:" + sub
		}
		x.viol = &Violation{Prop: x.plan.Prop, Rule: rule, Sub: sub, Msg: msg}
	}
}

func genConcPlan(prop string, seed uint64, tier string) *Plan {
	r := NewRng(seed)
	p := &Plan{Prop: prop, Seed: seed, Extra: map[string]int64{}}
	p.Cfg = genCfg(r, false)
	c := &p.Cfg
	c.Background = true
	c.TreeHeight = r.Pick(2, 3, 3, 4)
	c.DataFileMax = r.Pick64(768, 1024, 2048, 4096, 16384, 1<<20)
	c.BodyMax = r.Pick64(512, 2048)
	c.SplitCap = r.Pick64(2, 3, 4, 16, 1024)
	c.BodyInC = r.Pick64(0, 0, 64, 4096)
	c.FlushInterval = r.Pick(1, 1, 5)
	c.DumperSecs = r.Pick(1, 5, 30)
	c.SecsBeforeDump = r.Pick64(0, 0, 1, 5)
	c.QuantumNS = r.Pick64(1000, 100000, 1000000, 10000000)
	c.FlushMax = 100 << 20
	c.BodyBig = 1 << 20
	c.MaxSteps = 600000
	if c.StmtYield {
		c.MaxSteps = 2400000
	}
	c.NoGCDays = 0
	if r.Bool(1, 2) {
		c.CheckVHash = false
	}
	// 1..3 buckets
	if c.NumBucket > 1 {
		n := r.Range(1, 3)
		seen := map[int]bool{}
		c.Served = nil
		for len(c.Served) < n {
			b := r.Intn(c.NumBucket)
			if !seen[b] {
				seen[b] = true
				c.Served = append(c.Served, b)
			}
		}
	}
	if prop == "C05" && r.Bool(1, 2) {
		// target GC's per-record window (newest-check, copy, tree repoint, hint write): the
		// pass is preempted with probability 1/2 at each of its scheduling points
		c.BiasTag = "gc"
		c.Policy = simrt.PolicyRandomWalk
	}
	if prop == "C05" || prop == "C17" {
		// GC worlds: one bucket, several small files
		c.Served = c.Served[:1]
		c.BodyMax = r.Pick64(300, 512, 1024)
		c.DataFileMax = r.Pick64(768, 1024, 2048)
		if r.Bool(1, 2) {
			c.DataFileMax = c.BodyMax + r.Pick64(1024, 2048)
		}
	}
	// wide layout (C05): more keys, files of 16..32 one-block records with garbage and live
	// records interleaved, so that an in-place pass slides *other* keys' records over the old
	// position of a record it has just moved (what a reader holding that old position then finds)
	wide := prop == "C05" && r.Bool(1, 3)
	if wide {
		c.DataFileMax = r.Pick64(4096, 8192)
	}
	c.normalize()
	nKeys := r.Range(2, 6)
	if wide {
		nKeys = r.Range(10, 20)
	}
	if prop == "C13" {
		// concurrent *benign* collision world: sets with unique values and gets only, no
		// check_vhash (nothing a recorded finding of C13 can act through), one bucket
		c.CheckVHash = false
		c.Served = c.Served[:1]
		nKeys = r.Range(4, 8)
	}
	p.Keys = genKeys(r, c, nKeys, 0)
	if prop == "C13" {
		perm := r.Perm(len(p.Keys))
		pos := 0
		for gi := r.Range(1, 2); gi > 0; gi-- {
			sz := r.Range(2, 3)
			if pos+sz > len(perm) {
				break
			}
			p.Groups = append(p.Groups, append([]int(nil), perm[pos:pos+sz]...))
			pos += sz
		}
		p.Extra["benignCollide"] = 1
		// the hint dumper starts a hint merge on its own when the head is more than merge_interval
		// chunks ahead of the last merge; lookups by key then miss hint items that were not in a
		// dumped split at that moment (recorded finding KF-C13-collide-automerge): out of reach in
		// five worlds of six
		if r.Bool(1, 6) {
			p.Extra["autoMerge"] = 1
			c.MergeInterval = 1
		} else {
			c.MergeInterval = 1000
		}
	}
	nClients := r.Range(2, 16)
	if prop == "C13" {
		nClients = r.Range(2, 6)
	}
	if prop == "C05" {
		nClients = r.Range(1, 6)
	}
	if prop == "C17" {
		nClients = r.Range(0, 2)
	}
	id := 0
	maxPerKey := 60
	perKey := map[int]int{}
	// preload (sequential, before the concurrent phase)
	earlyRestartAt := 0
	if prop == "C05" && r.Bool(1, 4) {
		earlyRestartAt = r.Range(1, 4)
		p.Extra["earlyRestart"] = 1
		if r.Bool(2, 3) {
			// layout for "the destination fills up in the middle of a source file": a short file 0,
			// then files of 8 or 16 one-block records of mostly distinct keys, so that the live
			// records of file 1 do not all fit into what is left of file 0
			wide = true
			c.BodyMax = r.Pick64(300, 512)
			c.DataFileMax = r.Pick64(2048, 2048, 4096)
			c.normalize()
			p.Keys = genKeys(r, c, r.Range(18, 30), 0) // more keys than preload writes: most records stay live
			p.Extra["overflowLayout"] = 1
			nClients = r.Range(1, 2) // (few concurrent overwrites: the preload's records stay live)
		}
	}
	if prop == "C13" && r.Bool(2, 3) {
		// a few sets first (the collision is on disk, undiscovered, when the clients start)
		for i := r.Range(2, 8); i > 0; i-- {
			id++
			k := r.Intn(len(p.Keys))
			if r.Bool(2, 3) && len(p.Groups) > 0 {
				grp := p.Groups[r.Intn(len(p.Groups))]
				k = grp[r.Intn(len(grp))]
			}
			p.Ops = append(p.Ops, Op{ID: id, Kind: "set", K: k, V: ValSpec{Class: r.Pick(VConst, VText, VRandom), Len: r.Pick(10, 100, 250), Seed: uint32(r.U64())}})
			if r.Bool(1, 4) {
				id++
				p.Ops = append(p.Ops, Op{ID: id, Kind: "flush"})
			}
		}
	}
	if prop == "C05" || prop == "C17" {
		n := r.Range(6, 30)
		if wide {
			n = r.Range(20, 50)
		}
		if p.Extra["overflowLayout"] == 1 && n > len(p.Keys) {
			n = len(p.Keys) // no key is written twice: every preloaded record stays live
		}
		for i := 0; i < n; i++ {
			id++
			op := Op{ID: id, Kind: "set", K: r.Intn(len(p.Keys))}
			if earlyRestartAt > 0 && i < earlyRestartAt+20 && r.Bool(3, 4) {
				op.K = i % len(p.Keys) // mostly distinct keys in the first files
			}
			op.V = ValSpec{Class: r.Pick(VConst, VText, VRandom), Len: r.Pick(10, 100, 200, 250, int(c.BodyMax) - 1), Seed: uint32(r.U64())}
			if wide {
				op.V.Len = r.Pick(10, 60, 150)
			}
			if r.Bool(1, 5) {
				op.Kind = "del"
			}
			if r.Bool(1, 8) {
				op = Op{ID: id, Kind: "flush"}
			}
			p.Ops = append(p.Ops, op)
			if earlyRestartAt > 0 && i+1 == earlyRestartAt {
				// a clean restart after a few records leaves a short first data file behind: a pass
				// that starts above it appends to that earlier, non-full file first
				id++
				p.Ops = append(p.Ops, Op{ID: id, Kind: "restart"})
			}
		}
	}
	for ci := 0; ci < nClients; ci++ {
		n := r.Range(5, 25)
		var ops []Op
		for i := 0; i < n; i++ {
			id++
			op := Op{ID: id}
			op.K = r.Intn(len(p.Keys))
			if perKey[op.K] >= maxPerKey {
				continue
			}
			perKey[op.K]++
			wts := []int{40, 12, 35, 13, 6}
			if prop == "C13" {
				wts = []int{45, 0, 55, 0, 0} // sets and gets only
				if r.Bool(2, 3) && len(p.Groups) > 0 {
					grp := p.Groups[r.Intn(len(p.Groups))]
					op.K = grp[r.Intn(len(grp))]
				}
			}
			switch r.Weighted(wts) {
			case 4:
				// the value of an earlier write of this key again, with an explicit larger revision: under
				// check_vhash this raises the version in the index only (no record is written)
				op.Kind = "get"
				var refs []Op
				for _, l := range append([][]Op{p.Ops}, append(p.Clients, ops)...) {
					for _, o := range l {
						if o.Kind == "set" && o.K == op.K {
							refs = append(refs, o)
						}
					}
				}
				if len(refs) > 0 {
					ref := refs[r.Intn(len(refs))]
					op.Kind = "bump"
					op.V = ref.V
					op.VID = ref.vid()
					op.Flag = ref.Flag
					op.Rev = int32(1000 + 7*id + r.Intn(7))
				}
			case 0:
				op.Kind = "set"
				op.V = ValSpec{Class: r.Pick(VConst, VText, VRandom, VPeriodic), Len: r.Pick(10, 30, 100, 200, 250, 400, int(c.BodyMax) - 1), Seed: uint32(r.U64())}
				if op.V.Len > int(c.BodyMax) {
					op.V.Len = int(c.BodyMax)
				}
				if op.V.Len < 8 {
					op.V.Len = 8
				}
				op.Flag = uint32(r.Pick(0, 0, 0x10, 7))
				if prop != "C13" && r.Bool(1, 16) {
					// a value whose 16-bit value hash is 0: the hash a tombstone carries
					op.V.Class = VZeroHash
					if op.V.Len > 400 {
						op.V.Len = 400
					}
				}
			case 1:
				op.Kind = "del"
			case 2:
				op.Kind = "get"
			case 3:
				op.Kind = "meta"
			}
			ops = append(ops, op)
		}
		p.Clients = append(p.Clients, ops)
	}
	// environment task: timed events
	nEnv := r.Range(0, 8)
	var env []Op
	for i := 0; i < nEnv; i++ {
		id++
		op := Op{ID: id, At: r.Range(1, 400)}
		switch r.Intn(4) {
		case 0:
			op.Kind = "flush"
		case 1:
			op.Kind = "advance"
			op.D = r.Pick64(500, 1100, 2000, 6000, 61000)
		case 2:
			op.Kind = "dump"
		case 3:
			op.Kind = "advance"
			op.D = r.Pick64(1100, 5100)
		}
		env = append(env, op)
	}
	if prop == "C05" || prop == "C17" {
		id++
		gc := Op{ID: id, Kind: "gc", At: r.Range(0, 60), GCBucket: c.Served[0], GCStart: r.Pick(-1, 0, 0, 0, 1), GCEnd: r.Pick(-1, -1, 0, 1, 2, 5), GCDays: 0, Merge: r.Bool(1, 3)}
		if earlyRestartAt > 0 {
			gc.GCStart = r.Pick(1, 1, 2, 2) // 2: the range starts right above a full file 1, with the short file 0 below it
			gc.GCEnd = r.Pick(-1, -1, 2, 3, 5)
			if p.Extra["overflowLayout"] == 1 {
				gc.GCStart = 1
			}
		}
		env = append(env, gc)
		if prop == "C17" || r.Bool(1, 4) {
			id++
			gc2 := gc
			gc2.ID = id
			gc2.At = gc.At + r.Pick(0, 0, 1, 2, 5, 30)
			if prop == "C17" {
				gc2.Kind = "gc2" // competing request from a second task
			} else {
				gc2.Kind = "cancelgc"
				gc2.At = gc.At + r.Range(1, 200)
			}
			env = append(env, gc2)
		}
	}
	if prop == "C05" {
		// writes to be placed exactly between GC's newest-check and its tree repoint (the key is
		// chosen at run time: the key of the record the pass is relocating)
		for i := r.Range(0, 6); i > 0; i-- {
			id++
			op := Op{ID: id, Kind: "iset", V: ValSpec{Class: r.Pick(VConst, VText), Len: r.Pick(10, 10, 100, 230), Seed: uint32(r.U64())}}
			if r.Bool(1, 4) {
				op.Kind = "idel"
			} else if r.Bool(1, 3) {
				op.Kind = "ibump" // the relocated record's own value with a larger explicit revision
				op.Rev = int32(1000 + 7*id + r.Intn(7))
			}
			env = append(env, op)
		}
	}
	p.Clients = append(p.Clients, env) // last list = environment
	p.Extra["env"] = 1
	if prop == "C05" && (r.Bool(1, 4) || (p.Extra["earlyRestart"] == 1 && r.Bool(1, 2))) {
		p.Extra["cancelAtWrite"] = int64(r.Pick(1, 2, 3, 5, 8, 13, -1, -1, -2, -3))
		if p.Extra["overflowLayout"] == 1 {
			p.Extra["cancelAtWrite"] = int64(r.Pick(-1, -1, -2, -3, 5))
		}
	}
	if len(p.Ops) > 0 && ((prop != "C04" && r.Bool(1, 4)) || (prop == "C04" && r.Bool(1, 6))) {
		// the concurrent phase starts right after a clean restart: clients (and the GC request)
		// arrive while Bucket.open's background goroutine is still loading - or, with the hint
		// files removed, rebuilding from the data files - the hints of the lower chunks
		p.Extra["restartBeforeConc"] = 1 + int64(r.Intn(3)) // 1: keep hints, 2: remove all hint files, 3: remove a drawn subset
		p.Extra["restartSeed"] = int64(r.U64() >> 1)
		envl := p.Clients[len(p.Clients)-1]
		shift := 0
		for i := range envl {
			if envl[i].Kind == "gc" && r.Bool(2, 3) {
				// the GC request arrives early, while the loader is at work
				at := r.Pick(0, 3, 20, 80, 300)
				shift = at - envl[i].At
			}
			if shift != 0 && (envl[i].Kind == "gc" || envl[i].Kind == "gc2" || envl[i].Kind == "cancelgc") {
				envl[i].At += shift
				if envl[i].At < 0 {
					envl[i].At = 0
				}
			}
		}
	}
	return p
}

func (x *concExec) tick() int64 { x.seq++; return x.seq }

// maybeInject: when the pass issues the data write that relocates a record (it has passed the
// newest-check and has not yet repointed the tree) a pre-generated client write to the same key
// may be placed right there: the pass is parked until the injector task has finished the write.
// A legal schedule, chosen deliberately instead of waiting for the random walk to find it.
func (x *concExec) maybeInject(g *Gen, ev *simrt.FSEvent) {
	if x.injBusy || ev.Tag != "gc" || ev.Kind != simrt.FSWrite || len(ev.Data) < recHdr {
		return
	}
	if len(ev.Path) < 5 || ev.Path[len(ev.Path)-5:] != ".data" {
		return
	}
	x.gcWrites++
	trigger := false
	if h := g.H.VerifGCHistory(x.plan.Cfg.Served[0]); len(h) > 0 {
		st := h[len(h)-1]
		if x.gcWrites == 1 {
			x.firstDst = st.Dst
		}
		if st.Dst == st.Src && st.Dst != x.firstDst && !x.rotSeen {
			x.rotSeen = true
			x.out.probe("gc-destination-rotated-onto-source")
		}
	}
	if k := x.plan.Extra["cancelAtWrite"]; k != 0 && x.plan.Prop == "C05" && !x.cancelPlaced {
		if k > 0 {
			trigger = x.gcWrites == k
		} else if h := g.H.VerifGCHistory(x.plan.Cfg.Served[0]); len(h) > 0 {
			// state-triggered: the destination has filled up in the middle of a source file and
			// rotated onto that very file, which is from now on rewritten in place; the cancel
			// arrives -k-1 relocation writes later
			st := h[len(h)-1]
			if st.Dst == st.Src && st.Dst != x.firstDst && x.rotatedAt == 0 {
				x.rotatedAt = x.gcWrites
			}
			trigger = x.rotatedAt > 0 && x.gcWrites == x.rotatedAt+(-k-1)
		}
	}
	if trigger {
		x.cancelPlaced = true
		// a cancel request placed inside the pass: right before its k-th relocation write, i.e. in
		// the middle of a source file (a legal instant for an administrator's request)
		gcCancel(g, x.plan.Cfg.GCWeb, x.plan.Cfg.Served[0])
		x.out.probe("gc-cancel-placed-at-relocation-write")
		if h := g.H.VerifGCHistory(x.plan.Cfg.Served[0]); len(h) > 0 {
			st := h[len(h)-1]
			switch {
			case st.Dst == st.Src && st.Dst == x.firstDst:
				x.out.probe("gc-cancel-placed:in-place-from-the-start")
			case st.Dst == st.Src:
				x.out.probe("gc-cancel-placed:destination-rotated-onto-source")
			case st.Dst < st.Begin:
				x.out.probe("gc-cancel-placed:destination-below-range")
			default:
				x.out.probe("gc-cancel-placed:other")
			}
		}
	}
	if x.slowPath != "" {
		// (the previous event's write is on disk by now)
		x.slowCovered = x.slowCovered || x.slowCoverNext
		x.slowCoverNext = ev.Path == x.slowPath && ev.Off <= x.slowOff && ev.Off+int64(len(ev.Data)) > x.slowOff
	}
	rec, ok := refDecodeAt(ev.Data, 0, 250, 1<<22)
	if !ok {
		return
	}
	k := -1
	for i, key := range x.plan.Keys {
		if string(key) == string(rec.Key) {
			k = i
		}
	}
	if k < 0 {
		return
	}
	c := g.W.Choose(simrt.StreamFault, 3)
	if c == 2 && x.plan.Prop != "C17" && x.slowN < 8 && x.slowKey < 0 {
		// place a slow reader instead of a write
		x.injBusy = true
		x.slowN++
		x.slowStalled = false
		x.slowPath, x.slowCovered, x.slowCoverNext = "", false, false
		if _, pos, err := g.H.Get(&store.KeyInfo{Key: x.plan.Keys[k], StringKey: string(x.plan.Keys[k])}, true); err == nil {
			// where the index points now = what the reader is going to look up
			x.slowPath = fmt.Sprintf("%s/%03d.data", x.sim.bucketDir(x.plan.Cfg.Served[0]), pos.ChunkID)
			x.slowOff = int64(pos.Offset)
		}
		x.slowKey = k
		g.W.WaitCond("gc-parked-for-slow-reader", func() bool { return x.slowStalled })
		x.injBusy = false
		return
	}
	if c != 1 || x.injNext >= len(x.injOps) {
		return
	}
	x.injBusy = true
	x.injKey = k
	x.injVal = nil
	if rec.Flag&0x10000 == 0 && rec.Ver > 0 {
		x.injVal = append([]byte(nil), rec.Val...)
	}
	x.injReq = true
	g.W.WaitCond("gc-parked-for-injection", func() bool { return !x.injReq })
	x.injBusy = false
}

// gcRunning reports whether an accepted GC pass has not finished yet.
func (x *concExec) gcRunning() bool {
	for _, tid := range x.gcTasks {
		if !x.g.W.TasksDone("store.gcMgr.gc", tid) {
			return true
		}
	}
	return false
}

func (x *concExec) doOp(ci int, op Op) {
	g := x.g
	h := histOp{Client: ci, Key: op.K, Kind: op.Kind, WID: op.ID}
	key := x.plan.Keys[op.K]
	ki := &store.KeyInfo{Key: key, StringKey: string(key)}
	h.InGC = x.gcRunning()
	epoch := len(x.gcTasks)
	h.Call = x.tick()
	switch op.Kind {
	case "set", "bump":
		val := x.valOf[op.ID]
		p := &store.Payload{}
		p.Flag = op.Flag
		p.Ver = 0
		h.VID = op.vid()
		if op.Kind == "bump" {
			p.Ver = op.Rev
			h.Rev = op.Rev
		}
		p.TS = uint32(g.W.Now().Unix())
		if !p.CArray.Alloc(len(val)) {
			h.Err = "alloc"
			break
		}
		copy(p.CArray.Body, val)
		cmem.DBRL.SetData.AddSizeAndCount(p.CArray.Cap)
		err := g.H.Set(ki, p)
		if err != nil {
			h.Err = err.Error()
		}
		h.OutVer = p.Ver
		if p.Ver == 0 {
			h.OutNoop = true
		}
		if op.Kind == "bump" {
			x.out.probe("same-value-revision-bump")
		}
	case "del":
		p := store.GetPayloadForDelete()
		err := g.H.Set(ki, p)
		if err != nil {
			if err.Error() == "NOT_FOUND" {
				h.OutNF = true
			} else {
				h.Err = err.Error()
			}
		}
		h.OutVer = p.Ver
	case "get":
		p, _, err := g.H.Get(ki, false)
		if err != nil {
			h.Err = err.Error()
			break
		}
		if p == nil {
			h.OutMiss = true
			break
		}
		h.OutVer = p.Ver
		if p.Ver < 0 {
			h.OutMiss = true
		} else {
			wid, ok := x.vals[string(p.Body)]
			if !ok || x.keyOfW[wid] != op.K {
				h.Err = fmt.Sprintf("unattributable value: %d bytes %q (ver %d)", len(p.Body), trunc(string(p.Body), 40), p.Ver)
				if ok {
					h.Err = fmt.Sprintf("value of another key: write #%d of k%d (ver %d)", wid, x.keyOfW[wid], p.Ver)
				}
			} else {
				h.OutWID = wid
			}
		}
		cmem.DBRL.GetData.SubSizeAndCount(p.CArray.Cap)
		p.CArray.Free()
	case "meta":
		p, _, err := g.H.Get(ki, true)
		if err != nil {
			h.Err = err.Error()
			break
		}
		if p == nil {
			h.OutMiss = true
		} else {
			h.OutVer = p.Ver
		}
	}
	h.Ret = x.tick()
	if x.gcRunning() || len(x.gcTasks) != epoch {
		h.InGC = true // a pass was active at some point of this operation (possibly entirely inside it)
	}
	x.hist = append(x.hist, h)
}

func runConc(plan *Plan, tape *simrt.Tape) *Outcome {
	out := &Outcome{Seed: plan.Seed, Prop: plan.Prop}
	dir := mkWorldDir()
	defer os.RemoveAll(dir)
	sim := NewSim(plan.Cfg, dir, tape)
	x := &concExec{plan: plan, out: out, sim: sim, vals: map[string]int{}, valOf: map[int][]byte{}, keyOfW: map[int]int{}, lastFS: map[int]int64{}, slowKey: -1}
	sim.OnFS = func(g *Gen, ev *simrt.FSEvent) {
		x.lastFS[ev.Task] = ev.Step
		x.maybeInject(g, ev)
	}
	if len(plan.Groups) > 0 {
		installCollisions(plan)
		defer func() { hashOverride = nil }()
	}
	all := append([][]Op{plan.Ops}, plan.Clients...)
	for _, l := range all {
		for _, op := range l {
			if op.Kind == "set" || op.Kind == "iset" || op.Kind == "ibump" {
				v := makeValue(op.V, op.vid())
				x.valOf[op.ID] = v
				x.vals[string(v)] = op.ID
				x.keyOfW[op.ID] = op.K
			}
			if op.Kind == "iset" || op.Kind == "idel" || op.Kind == "ibump" {
				x.injOps = append(x.injOps, op)
			}
		}
	}
	for _, l := range all {
		for _, op := range l {
			if op.Kind == "bump" {
				// the bytes of write #VID again. They are taken from that write (not from this
				// op's own value spec, which the minimiser may have simplified independently);
				// if the write no longer exists in a minimised plan the bump defines the bytes
				v, ok := x.valOf[op.VID]
				if !ok || x.keyOfW[op.VID] != op.K {
					v = makeValue(op.V, op.vid())
					if _, taken := x.vals[string(v)]; !taken && !ok {
						x.valOf[op.VID] = v
						x.vals[string(v)] = op.VID
						x.keyOfW[op.VID] = op.K
					}
				}
				x.valOf[op.ID] = v
				x.keyOfW[op.ID] = op.K
			}
		}
	}
	nClients := len(plan.Clients) - 1
	env := plan.Clients[nClients]
	finished := false
	// the preload may contain clean restarts: every segment but the last is a process generation of its own
	preOps := plan.Ops
	for {
		cut := -1
		for i, op := range preOps {
			if op.Kind == "restart" {
				cut = i
				break
			}
		}
		if cut < 0 {
			break
		}
		seg := preOps[:cut]
		preOps = preOps[cut+1:]
		okSeg := false
		_, resSeg := sim.Run(func(g *Gen) {
			x.g = g
			for _, op := range seg {
				if op.Kind == "flush" {
					g.H.VerifFlush(true)
					g.W.Advance(1500 * time.Millisecond)
				} else {
					x.doOp(-1, op)
				}
			}
			if x.viol == nil {
				g.H.Close()
				okSeg = true
			}
		})
		if !okSeg || resSeg.Status != simrt.StatusDone {
			if x.viol == nil && resSeg.Status != simrt.StatusStepCap {
				x.fail("R-"+simrt.StatusName(resSeg.Status), "preload", resSeg.String())
			}
			if resSeg.Status == simrt.StatusStepCap {
				out.Inconclusive = "stepcap"
			}
			out.absorb(sim)
			out.Violation = x.viol
			out.Tapes = tape.Snapshot()
			return out
		}
		x.out.probe("preload-restart")
	}
	preload := func(g *Gen) {
		w := g.W
		// preload, sequentially
		for _, op := range preOps {
			switch op.Kind {
			case "flush":
				g.H.VerifFlush(true)
				w.Advance(1500 * time.Millisecond)
			default:
				x.doOp(-1, op)
			}
		}
		if len(plan.Ops) > 0 {
			w.Advance(3 * time.Second)
			w.WaitIdle()
			g.H.VerifFlush(true)
			w.WaitIdle()
		}
	}
	conc := func(g *Gen) {
		w := g.W
		if den := plan.Cfg.StallDen; den > 0 {
			// stalled-thread fault: a client (or the GC pass) is descheduled for a drawn, long
			// number of steps at a function entry of package store, e.g. between its index
			// lookup and its data read, while everybody else keeps running
			w.StallHook = func(site string) int64 {
				name := w.CurName()
				if !strings.HasPrefix(name, "client") && name != "store.gcMgr.gc" {
					return 0
				}
				if w.Choose(simrt.StreamFault, den) != den-1 {
					return 0
				}
				x.out.probe("fault:task-stalled-at-function-entry")
				return int64([]int{20, 100, 400, 1500, 6000}[w.Choose(simrt.StreamFault, 5)])
			}
		}
		remaining := nClients
		for ci := 0; ci < nClients; ci++ {
			ci := ci
			w.GoHarness(fmt.Sprintf("client%d", ci), func() {
				for _, op := range plan.Clients[ci] {
					w.HarnessYield()
					x.doOp(ci, op)
				}
				remaining--
			})
		}
		stopInj := false
		if len(x.injOps) > 0 {
			w.GoHarness("injector", func() {
				for {
					w.WaitCond("inject-wait", func() bool { return x.injReq || stopInj })
					if stopInj && !x.injReq {
						return
					}
					op := x.injOps[x.injNext]
					x.injNext++
					op.K = x.injKey
					if op.Kind == "ibump" {
						x.keyOfW[op.ID] = op.K
						op.Kind = "set" // fallback: an ordinary write of its own value
						if vid, ok := x.vals[string(x.injVal)]; ok && x.injVal != nil && x.keyOfW[vid] == op.K {
							op.Kind = "bump"
							op.VID = vid
							op.Flag = 0
							x.valOf[op.ID] = append([]byte(nil), x.injVal...)
							x.out.probe("revision-bump-placed-in-gc-window")
						} else {
							op.Rev = 0
						}
					} else if op.Kind == "iset" {
						op.Kind = "set"
						x.keyOfW[op.ID] = op.K
					} else {
						op.Kind = "del"
					}
					x.doOp(90, op)
					x.out.probe("write-placed-in-gc-window")
					x.injReq = false
				}
			})
		}
		w.GoHarness("slowreader", func() {
			for {
				w.WaitCond("slow-reader-wait", func() bool { return x.slowKey >= 0 || stopInj })
				if x.slowKey < 0 {
					return
				}
				k := x.slowKey
				x.doOp(91, Op{ID: 900000 + x.slowN, Kind: "get", K: k})
				x.slowStalled = true // (the read may have ended without reaching a data read)
				x.slowKey = -1
				x.out.probe("reader-placed-in-gc-window")
			}
		})
		prevHook := w.StallHook
		w.StallHook = func(site string) int64 {
			if x.slowKey >= 0 && !x.slowStalled && w.CurName() == "slowreader" && (site == "GetRecordByOffset" || site == "readRecordAtPath") {
				// index lookup done (old position in hand): let the pass run on for a drawn while
				x.out.probe("fault:reader-stalled-between-index-lookup-and-data-read")
				c := w.Choose(simrt.StreamFault, 10)
				x.slowStalled = true
				if c < 5 {
					return int64([]int{30, 120, 500, 2000, 8000}[c])
				}
				if c >= 7 && x.slowPath != "" {
					// stalled until the pass has written something over the old position (or has ended)
					w.WaitCond("slow-reader-stalled", func() bool { return x.slowCovered || !x.gcRunning() })
					if x.slowCovered {
						x.out.probe("slow-reader-resumed-after-position-was-overwritten")
					}
					return 0
				}
				// stalled until the pass has relocated c-4 more records (or has ended)
				target := x.gcWrites + int64(c-4)
				w.WaitCond("slow-reader-stalled", func() bool { return x.gcWrites >= target || !x.gcRunning() })
				return 0
			}
			if prevHook != nil {
				return prevHook(site)
			}
			return 0
		}
		defer func() { stopInj = true }()
		envDone := false
		w.GoHarness("env", func() {
			x.runEnv(env)
			envDone = true
		})
		ok := w.WaitCondSteps("clients", plan.Cfg.MaxSteps, func() bool { return remaining == 0 && envDone })
		if !ok {
			return
		}
		// no administrator request arrives during the final shutdown: stop the request storm first
		x.stormStop = true
		w.WaitCond("storm-stopped", func() bool { return x.stormLive == 0 })
		// wait for GC passes to end
		for _, tid := range x.gcTasks {
			tid := tid
			if !w.WaitCondTimeout("gc-end", 3*time.Hour, func() bool { return w.TasksDone("store.gcMgr.gc", tid) }) {
				x.fail("R-gc-hang", "", "GC pass did not finish within 3 simulated hours")
				return
			}
		}
		x.gcActive = 0
		w.WaitIdle()
		g.H.VerifFlush(true)
		w.WaitIdle()
		if plan.Prop == "C13" {
			for k := range plan.Keys {
				x.doOp(98, Op{ID: 950000 + k, Kind: "get", K: k})
			}
		} else {
			x.finalCheck("quiescent")
		}
		if x.viol != nil {
			return
		}
		g.H.Close()
		finished = true
	}
	var res simrt.Result
	if mode := plan.Extra["restartBeforeConc"]; mode > 0 && len(plan.Ops) > 0 {
		closed := false
		var g1 *Gen
		g1, res = sim.Run(func(g *Gen) {
			x.g = g
			preload(g)
			if x.viol == nil {
				g.H.Close()
				closed = true
			}
		})
		_ = g1
		if closed && res.Status == simrt.StatusDone && x.viol == nil {
			// keep the tree dump (tombstones stay indexed, versions go on); without hint files the
			// background loader of the next generation rebuilds them from the data files
			files := listFiles(dir)
			hasTree := map[string]bool{}
			for _, name := range sortedKeys(files) {
				if fileClass(name) == "tree" {
					hasTree[filepath.Dir(name)] = true
				}
			}
			rr := NewRng(uint64(plan.Extra["restartSeed"]))
			for _, name := range sortedKeys(files) {
				cl := fileClass(name)
				if (cl == "hint" || cl == "merged") && hasTree[filepath.Dir(name)] && (mode == 2 || (mode == 3 && rr.Bool(1, 2))) {
					os.Remove(filepath.Join(dir, name))
					x.out.fault("index-file-deleted:" + cl)
				}
			}
			x.out.probe("concurrent-phase-right-after-restart")
			var g2 *Gen
			g2, res = sim.Run(func(g *Gen) {
				x.g = g
				conc(g)
			})
			if g2.OpenErr != nil && x.viol == nil {
				x.fail("R-open-failed", "", "NewHStore after clean shutdown: "+g2.OpenErr.Error())
			}
		}
	} else {
		_, res = sim.Run(func(g *Gen) {
			x.g = g
			preload(g)
			conc(g)
		})
	}
	switch res.Status {
	case simrt.StatusDone:
	case simrt.StatusStepCap:
		out.Inconclusive = "stepcap"
	default:
		x.fail("R-"+simrt.StatusName(res.Status), "", fmt.Sprintf("process ended with %s: %s %v\n%s", simrt.StatusName(res.Status), res.Msg, res.Blocked, trunc(res.Stack, 1800)))
	}
	if x.viol == nil && out.Inconclusive == "" && !finished {
		out.Inconclusive = "unfinished"
	}
	if x.viol == nil {
		x.checkGCOverlap()
	}
	if x.viol == nil && finished {
		x.checkHistory()
	}
	if x.viol == nil && finished {
		// clean restart with rebuilt indexes: every key still holds its last acknowledged write
		for _, name := range sortedKeys(listFiles(dir)) {
			if cl := fileClass(name); cl == "tree" || (cl == "hint" && plan.Seed%2 == 0) {
				os.Remove(dir + "/" + name)
			}
		}
		g2, res2 := sim.Run(func(g *Gen) {
			x.g = g
			if plan.Prop == "C13" {
				for k := range plan.Keys {
					x.doOp(99, Op{ID: 960000 + k, Kind: "get", K: k})
				}
			} else {
				x.finalCheck("after-restart")
			}
		})
		if g2.OpenErr != nil {
			x.fail("R-open-failed", "", "NewHStore after clean shutdown: "+g2.OpenErr.Error())
		} else if res2.Status != simrt.StatusDone && res2.Status != simrt.StatusStepCap {
			x.fail("R-"+simrt.StatusName(res2.Status), "restart", res2.String())
		}
	}
	if x.viol == nil && finished && plan.Prop == "C13" {
		x.checkHistory() // (now including the reads after the restart)
	}
	if os.Getenv("VERIF_DEBUG") != "" {
		for _, h := range x.hist {
			fmt.Fprintf(os.Stderr, "HIST %+v\n", h)
		}
		fmt.Fprintf(os.Stderr, "gcTasks=%v accepted=%d\n", x.gcTasks, x.gcAccepted)
	}
	out.absorb(sim)
	out.Violation = x.viol
	// non-trivial: at least two operations on one key overlapped in event time
	overlap := 0
	for i := range x.hist {
		for j := i + 1; j < len(x.hist); j++ {
			a, b := x.hist[i], x.hist[j]
			if a.Key == b.Key && a.Client != b.Client && a.Call < b.Ret && b.Call < a.Ret {
				overlap++
			}
		}
	}
	out.Nontrivial = overlap >= 1
	if plan.Prop == "C05" {
		out.Nontrivial = out.Nontrivial && x.gcAccepted > 0
	}
	if plan.Prop == "C17" {
		out.Nontrivial = x.gcAccepted > 0
	}
	out.Probes["overlapping-op-pairs"] += int64(overlap)
	out.Probes["degraded-reads-during-gc"] += int64(x.degraded)
	out.Sig = fnvStr(cfgClass(&plan.Cfg), fmt.Sprint(len(x.hist)), fmt.Sprint(sim.SchedHash))
	out.Tapes = tape.Snapshot()
	out.Sample = map[string]interface{}{"seed": plan.Seed, "config": cfgClass(&plan.Cfg), "clients": nClients, "keys": len(plan.Keys),
		"history_ops": len(x.hist), "overlapping_pairs": overlap, "gc_accepted": x.gcAccepted, "steps": sim.Steps, "preemptions": sim.Preemptions,
		"first_ops": histSample(x.hist, 12)}
	return out
}

func histSample(h []histOp, n int) []string {
	var out []string
	for i, o := range h {
		if i >= n {
			break
		}
		out = append(out, fmt.Sprintf("c%d %s k%d [%d,%d] ver=%d wid=%d miss=%v", o.Client, o.Kind, o.Key, o.Call, o.Ret, o.OutVer, o.OutWID, o.OutMiss))
	}
	return out
}

func (x *concExec) runEnv(env []Op) {
	g := x.g
	w := g.W
	start := w.Steps()
	for _, op := range env {
		target := start + int64(op.At)
		w.WaitCondSteps("env-wait", int64(op.At)+1, func() bool { return w.Steps() >= target })
		switch op.Kind {
		case "iset", "idel", "ibump":
			continue
		case "flush":
			g.H.VerifFlush(true)
		case "dump":
			g.H.VerifDumpHints()
		case "advance":
			w.Advance(time.Duration(op.D) * time.Millisecond)
		case "gc", "gc2":
			op := op
			// bounded-delay assumption: an administrator's GC request does not arrive while the
			// asynchronous flush of a just-rotated file is still pending (a runnable goroutine is
			// not starved for seconds); rotations *during* the pass remain fully interleaved
			w.WaitCondSteps("rotated-flush-done", 200000, func() bool { return w.TasksDone("ds.flush", 0) })
			do := func() {
				if !w.TasksDone("ds.flush", 0) {
					// the wait above ran out of steps (statement-level worlds burn them quickly) with a
					// post-rotation flush still starved: no request is issued rather than one that
					// violates the assumption
					x.out.probe("gc-request-skipped:rotated-flush-still-pending")
					return
				}
				n := w.NumTasks()
				// the pass may run (even finish) before GC() returns to this task: register first
				x.gcTasks = append(x.gcTasks, n)
				idx := len(x.gcTasks) - 1
				w.TagNext = "gc"
				_, _, err := gcRequest(g, x.plan.Cfg.GCWeb, op.GCBucket, op.GCStart, op.GCEnd, op.GCDays, op.Merge, false)
				if x.plan.Cfg.GCWeb {
					x.out.probe("gc-request-via-web-handler")
				}
				w.TagNext = ""
				if err == nil {
					x.gcAccepted++
					x.out.probe("gc-accepted")
					for _, t := range w.LiveTasks() {
						if strings.Contains(t, "func@store.open") {
							name := t[strings.Index(t, ":")+1:]
							if i := strings.Index(name, "["); i > 0 {
								name = name[:i]
							}
							x.out.probe("gc-accepted-while-running:" + name)
						}
					}
				} else {
					x.gcTasks[idx] = 1 << 30
					x.out.probe("gc-refused")
				}
			}
			if op.Kind == "gc2" {
				// competing requests from a second task, repeated over the whole lifetime of the
				// first pass (also its final deferred steps: truncate, hint dump, deregistration)
				gaps := NewRng(uint64(op.ID)*977 + x.plan.Seed)
				x.stormLive++
				w.GoHarness("gc2", func() {
					defer func() { x.stormLive-- }()
					for i := 0; i < 60 && !x.stormStop; i++ {
						// same bounded-delay assumption as for the first request
						w.WaitCondSteps("rotated-flush-done", 200000, func() bool { return w.TasksDone("ds.flush", 0) })
						if gaps.Bool(1, 5) && x.gcRunning() {
							// the administrator cancels the running pass and asks again at once: the
							// cancelled pass is still winding down (rest of its file, truncate, hint dump)
							gcCancel(g, x.plan.Cfg.GCWeb, op.GCBucket)
							x.out.probe("gc-cancel-then-request")
						}
						do()
						if len(x.gcTasks) > 0 && !x.gcRunning() && i > 3 {
							return
						}
						until := w.Steps() + int64(gaps.Pick(1, 2, 5, 13, 40, 120))
						w.WaitCondSteps("gc2-gap", 200, func() bool { return w.Steps() >= until })
					}
				})
			} else {
				do()
			}
		case "cancelgc":
			gcCancel(g, x.plan.Cfg.GCWeb, op.GCBucket)
			x.out.probe("gc-cancel-requested")
		}
	}
}

// finalCheck: every key holds the accepted write with the highest |version|.
func (x *concExec) finalCheck(phase string) {
	g := x.g
	type best struct {
		ver int32
		wid int
		del bool
		ok  bool
		bump bool
	}
	bests := map[int]best{}
	for _, h := range x.hist {
		if h.Err != "" {
			continue
		}
		var v int32
		switch h.Kind {
		case "set":
			if h.OutNoop {
				continue
			}
			v = h.OutVer
		case "bump":
			// refused (revision not larger): the version comes back as 1; accepted: either a record was
			// written or (check_vhash, equal value hash) only the version in the index was raised
			if h.OutVer != h.Rev {
				continue
			}
			v = h.OutVer
		case "del":
			if h.OutNF {
				continue
			}
			v = h.OutVer
		default:
			continue
		}
		b := bests[h.Key]
		if !b.ok || abs32(v) > abs32(b.ver) {
			bests[h.Key] = best{ver: v, wid: h.WID, del: h.Kind == "del", ok: true, bump: h.Kind == "bump"}
		}
	}
	for k, key := range x.plan.Keys {
		ki := &store.KeyInfo{Key: key, StringKey: string(key)}
		p, _, err := g.H.Get(ki, false)
		b := bests[k]
		if err != nil {
			x.fail("R-read-error", phase, fmt.Sprintf("%s: get k%d failed: %v", phase, k, err))
			return
		}
		live := p != nil && p.Ver > 0
		var body []byte
		var ver int32
		if p != nil {
			body = append([]byte(nil), p.Body...)
			ver = p.Ver
			cmem.DBRL.GetData.SubSizeAndCount(p.CArray.Cap)
			p.CArray.Free()
		}
		switch {
		case !b.ok || b.del:
			if live {
				x.fail("R-final-not-highest", phase, fmt.Sprintf("%s: k%d is live (ver %d, %d bytes) but its highest-version accepted write is %+v", phase, k, ver, len(body), b))
				return
			}
		default:
			if !live || (!bytes.Equal(body, x.valOf[b.wid]) && !(b.bump && refVHash(body) == refVHash(x.valOf[b.wid]))) {
				got := "miss"
				if live {
					got = fmt.Sprintf("ver %d value of write #%d", ver, x.vals[string(body)])
				}
				x.fail("R-final-not-highest", phase, fmt.Sprintf("%s: k%d reads %s but the accepted write with the highest version is #%d (ver %d)", phase, k, got, b.wid, b.ver))
				return
			}
			if phase == "quiescent" && ver != b.ver {
				x.fail("R-final-not-highest", phase+"-ver", fmt.Sprintf("%s: k%d has version %d, highest accepted write #%d got %d", phase, k, ver, b.wid, b.ver))
				return
			}
		}
	}
}

// register-with-version model for porcupine
type regState struct {
	Ver int32
	WID int
}

type regIn struct {
	Kind string
	WID  int
	VH   uint16
	Rev  int32
}

type regOut struct {
	Ver  int32
	WID  int
	Miss bool
	NF   bool
	Noop bool
}

// valueModel (C13 concurrent worlds): versions of keys sharing a hash are unspecified, so the
// register only carries the identity of the value: a set always takes effect, a get returns the
// value of the latest set (or a miss before the first one).
func (x *concExec) valueModel() porcupine.Model {
	return porcupine.Model{
		Init: func() interface{} { return 0 },
		Step: func(state, input, output interface{}) (bool, interface{}) {
			s := state.(int)
			in := input.(regIn)
			o := output.(regOut)
			switch in.Kind {
			case "set":
				return !o.Noop, in.WID
			case "get":
				if o.Miss {
					return s == 0, s
				}
				return s != 0 && s == o.WID, s
			}
			return false, s
		},
		Equal: func(a, b interface{}) bool { return a.(int) == b.(int) },
		DescribeOperation: func(input, output interface{}) string {
			return fmt.Sprintf("%+v -> %+v", input, output)
		},
	}
}

func (x *concExec) model() porcupine.Model {
	vh := map[int]uint16{}
	for id, v := range x.valOf {
		vh[id] = refVHash(v)
	}
	checkVHash := x.plan.Cfg.CheckVHash
	return porcupine.Model{
		Init: func() interface{} { return regState{} },
		Step: func(state, input, output interface{}) (bool, interface{}) {
			s := state.(regState)
			in := input.(regIn)
			o := output.(regOut)
			switch in.Kind {
			case "set":
				if o.Noop {
					ok := checkVHash && s.Ver > 0 && vh[s.WID] == in.VH
					return ok, s
				}
				if checkVHash && s.Ver > 0 && vh[s.WID] == in.VH {
					return false, s
				}
				if o.Ver != abs32(s.Ver)+1 {
					return false, s
				}
				return true, regState{o.Ver, in.WID}
			case "bump":
				// in.WID is the identity of the value bytes
				if checkVHash && s.Ver > 0 && vh[s.WID] == in.VH {
					// equal value hash: no record is written; a larger revision is recorded in the index only
					if o.Ver != in.Rev {
						return false, s
					}
					if in.Rev > s.Ver {
						return true, regState{in.Rev, s.WID}
					}
					return true, s
				}
				if in.Rev <= abs32(s.Ver) {
					return o.Ver == 1, s // refused
				}
				return o.Ver == in.Rev, regState{in.Rev, in.WID}
			case "del":
				if o.NF {
					return s.Ver <= 0, s
				}
				if s.Ver <= 0 || o.Ver != -(s.Ver+1) {
					return false, s
				}
				return true, regState{o.Ver, 0}
			case "get":
				if o.Miss {
					return s.Ver <= 0, s
				}
				return s.Ver > 0 && s.WID == o.WID && s.Ver == o.Ver, s
			case "meta":
				if o.Miss {
					return s.Ver == 0, s
				}
				return s.Ver != 0 && s.Ver == o.Ver, s
			}
			return false, s
		},
		Equal: func(a, b interface{}) bool { return a.(regState) == b.(regState) },
		DescribeOperation: func(input, output interface{}) string {
			return fmt.Sprintf("%+v -> %+v", input, output)
		},
	}
}

func (x *concExec) checkHistory() {
	byKey := map[int][]porcupine.Operation{}
	for _, h := range x.hist {
		if h.Err != "" {
			if h.InGC && (h.Kind == "get" || h.Kind == "meta") && x.plan.Prop != "C04" && !bytes.Contains([]byte(h.Err), []byte("value")) {
				x.degraded++
				x.out.probe("degraded-read:" + errClass(h.Err))
				continue
			}
			rule := "R-read-error"
			sub := h.Kind
			if bytes.Contains([]byte(h.Err), []byte("another key")) {
				rule = "R-value-otherkey"
			} else if bytes.Contains([]byte(h.Err), []byte("unattributable")) {
				rule = "R-value-unknown"
			}
			x.fail(rule, sub, fmt.Sprintf("client %d %s k%d (events %d..%d, during GC: %v): %s", h.Client, h.Kind, h.Key, h.Call, h.Ret, h.InGC, trunc(h.Err, 300)))
			return
		}
		if h.InGC && h.OutMiss && (h.Kind == "get" || h.Kind == "meta") && x.plan.Prop != "C04" {
			// A read overlapping an active pass may *fail* (position moved under the reader:
			// an error is not a value). A miss, however, tells the client that the key does not
			// exist: it is checked like any other read (legal only if "absent" linearises).
			x.out.probe("miss-during-gc-checked")
		}
		in := regIn{Kind: h.Kind, WID: h.WID}
		if h.Kind == "set" {
			in.VH = refVHash(x.valOf[h.WID])
		}
		if h.Kind == "bump" {
			in.VH = refVHash(x.valOf[h.WID])
			in.WID = h.VID
			in.Rev = h.Rev
		}
		o := regOut{Ver: h.OutVer, WID: h.OutWID, Miss: h.OutMiss, NF: h.OutNF, Noop: h.OutNoop}
		byKey[h.Key] = append(byKey[h.Key], porcupine.Operation{ClientId: h.Client + 1, Input: in, Call: h.Call, Output: o, Return: h.Ret})
	}
	m := x.model()
	if x.plan.Prop == "C13" {
		m = x.valueModel()
	}
	for k := 0; k < len(x.plan.Keys); k++ {
		ops := byKey[k]
		if len(ops) == 0 {
			continue
		}
		res := porcupine.CheckOperationsTimeout(m, ops, 20*time.Second)
		switch res {
		case porcupine.Ok:
			x.out.probe("porcupine-ok")
		case porcupine.Unknown:
			x.out.probe("porcupine-unknown")
		case porcupine.Illegal:
			x.out.probe("porcupine-illegal")
			var lines []string
			for _, h := range x.hist {
				if h.Key == k {
					lines = append(lines, fmt.Sprintf("c%d %s#%d [%d,%d] -> ver=%d wid=%d miss=%v nf=%v noop=%v", h.Client, h.Kind, h.WID, h.Call, h.Ret, h.OutVer, h.OutWID, h.OutMiss, h.OutNF, h.OutNoop))
				}
			}
			msg := fmt.Sprintf("history of k%d (%d ops) is not linearizable against the versioned register: ", k, len(ops))
			for i, l := range lines {
				if i > 60 {
					break
				}
				msg += "\n   " + l
			}
			sub := ""
			if x.plan.Prop == "C13" && x.inflightStaleOnly(m, ops) {
				// recorded finding KF-C13-collide-inflight-stale-read: a set updates the tree before
				// the collision table; while it is in flight one reader can see the new value through
				// the tree and a later one the previous value through the table
				sub = "collide-inflight-stale-read:"
			}
			x.fail("R-lin-illegal", sub, msg)
			return
		}
	}
}

// inflightStaleOnly reports whether a non-linearizable history of a colliding key becomes
// linearizable once the reads of one precise shape are left out: a read that returned an older value
// although an earlier, already completed read had returned the value of a set that was still in
// flight when the later read was invoked.
func (x *concExec) inflightStaleOnly(m porcupine.Model, ops []porcupine.Operation) bool {
	var kept []porcupine.Operation
	dropped := 0
	for _, r := range ops {
		in := r.Input.(regIn)
		drop := false
		if in.Kind == "get" || in.Kind == "meta" {
			ro := r.Output.(regOut)
			for _, w := range ops {
				win := w.Input.(regIn)
				if win.Kind != "set" || !(w.Call < r.Call && w.Return > r.Call) || ro.WID == win.WID {
					continue
				}
				for _, r1 := range ops {
					i1 := r1.Input.(regIn)
					if (i1.Kind == "get" || i1.Kind == "meta") && r1.Return < r.Call && !r1.Output.(regOut).Miss && r1.Output.(regOut).WID == win.WID {
						drop = true
					}
				}
			}
		}
		if drop {
			dropped++
			continue
		}
		kept = append(kept, r)
	}
	if dropped == 0 {
		return false
	}
	return porcupine.CheckOperationsTimeout(m, kept, 20*time.Second) == porcupine.Ok
}

// checkGCOverlap (C17): at most one pass runs on a bucket at a time.
func (x *concExec) checkGCOverlap() {
	var passes []simrt.TaskInfo
	for _, t := range x.g.W.Tasks() {
		if t.Name == "store.gcMgr.gc" {
			passes = append(passes, t)
		}
	}
	if len(passes) >= 2 {
		x.out.probe("two-gc-requests-accepted")
	}
	for i := 0; i < len(passes); i++ {
		for j := i + 1; j < len(passes); j++ {
			a, b := passes[i], passes[j]
			// a pass is "in progress" from its acceptance to its last disk mutation (the few
			// statements after its deregistration do not count)
			// (whether the task has formally returned is not used: a pass that has deregistered
			// itself may be starved of its last scheduling until the world ends)
			aEnd, bEnd := x.lastFS[a.ID], x.lastFS[b.ID]
			if aEnd < a.FirstStep {
				aEnd = a.FirstStep
			}
			if bEnd < b.FirstStep {
				bEnd = b.FirstStep
			}
			if a.FirstStep < bEnd && b.FirstStep < aEnd {
				x.fail("R-gc-overlap", "", fmt.Sprintf("two GC passes on one bucket were accepted and alive at the same time: task %d steps [%d,%d] and task %d steps [%d,%d]",
					a.ID, a.FirstStep, a.LastStep, b.ID, b.FirstStep, b.LastStep))
				return
			}
		}
	}
}

func init() {
	for _, p := range []string{"C04", "C05"} {
		engines[p] = engine{genConcPlan, runConc}
	}
	engines["C17"] = engine{
		gen: func(prop string, seed uint64, tier string) *Plan {
			if seed%3 == 0 {
				return genConcPlan(prop, seed, tier)
			}
			return genSeqPlan(prop, seed, tier)
		},
		run: func(p *Plan, tape *simrt.Tape) *Outcome {
			if p.Extra["env"] == 1 {
				return runConc(p, tape)
			}
			return runSeq(p, tape)
		},
	}
}

// errClass reduces an error text to its shape (digits and quoted parts removed) for probes.
func errClass(e string) string {
	var b []byte
	for i := 0; i < len(e) && len(b) < 48; i++ {
		c := e[i]
		if c >= '0' && c <= '9' {
			continue
		}
		if c == '/' || c == '"' || c == '(' {
			break
		}
		b = append(b, c)
	}
	return strings.TrimSpace(string(b))
}
