package main

import (
	"fmt"
	"sort"
	"strconv"
	"strings"
)

// Reference recomputation of the Merkle directory listing from the model content
// (C08 second oracle, C15 upper levels). Formulas are the cross-replica contract of beansdb:
// leaf hash = sum over live items of vhash * (keyhash >> 32) in 16-bit arithmetic; inner node
// hash = fold of child hashes, multiplied by 97 before each addition when the node holds more
// than 256 keys; upper tree (above bucket level) always multiplies by 97.

type refItem struct {
	KeyHash uint64
	VHash   uint16
	Ver     int32
}

type listEntry struct {
	// node form
	Child int
	Hash  uint16
	Count uint32
	// item form
	Item refItem
}

type listing struct {
	Kind  string // "nodes", "items", "empty"
	Nodes []listEntry
	Items []refItem
}

func parseListing(body []byte) (listing, error) {
	var l listing
	if len(body) == 0 {
		l.Kind = "empty"
		return l, nil
	}
	if body[len(body)-1] != '\n' {
		return l, fmt.Errorf("listing does not end with a newline")
	}
	lines := strings.Split(strings.TrimSuffix(string(body), "\n"), "\n")
	for _, ln := range lines {
		f := strings.Split(ln, " ")
		if len(f) != 3 {
			return l, fmt.Errorf("bad listing line %q", ln)
		}
		if strings.HasSuffix(f[0], "/") {
			c, e1 := strconv.ParseUint(strings.TrimSuffix(f[0], "/"), 16, 8)
			h, e2 := strconv.ParseUint(f[1], 10, 16)
			n, e3 := strconv.ParseUint(f[2], 10, 32)
			if e1 != nil || e2 != nil || e3 != nil {
				return l, fmt.Errorf("bad node line %q", ln)
			}
			l.Nodes = append(l.Nodes, listEntry{Child: int(c), Hash: uint16(h), Count: uint32(n)})
		} else {
			if len(f[0]) != 16 {
				return l, fmt.Errorf("bad item line %q", ln)
			}
			kh, e1 := strconv.ParseUint(f[0], 16, 64)
			vh, e2 := strconv.ParseUint(f[1], 10, 16)
			v, e3 := strconv.ParseInt(f[2], 10, 32)
			if e1 != nil || e2 != nil || e3 != nil {
				return l, fmt.Errorf("bad item line %q", ln)
			}
			l.Items = append(l.Items, refItem{kh, uint16(vh), int32(v)})
		}
	}
	switch {
	case len(l.Nodes) > 0 && len(l.Items) > 0:
		return l, fmt.Errorf("listing mixes node and item lines")
	case len(l.Nodes) > 0:
		l.Kind = "nodes"
		if len(l.Nodes) != 16 {
			return l, fmt.Errorf("node listing with %d lines", len(l.Nodes))
		}
		for i, n := range l.Nodes {
			if n.Child != i {
				return l, fmt.Errorf("node listing out of order")
			}
		}
	default:
		l.Kind = "items"
	}
	return l, nil
}

// refTree computes node summaries from a set of live items for one bucket.
type refTree struct {
	cfg     *SimCfg
	items   []refItem // live items of the whole store
	hashOf  func(key []byte) uint64
}

func digitsOf(h uint64, n int) []int {
	d := make([]int, n)
	for i := 0; i < n; i++ {
		d[i] = int((h >> uint(4*(15-i))) & 0xf)
	}
	return d
}

func hasPrefix(h uint64, prefix []int) bool {
	for i, p := range prefix {
		if int((h>>uint(4*(15-i)))&0xf) != p {
			return false
		}
	}
	return true
}

// nodeSummary returns (hash, count) of the bucket-tree node addressed by prefix (len >= depth).
func (t *refTree) nodeSummary(prefix []int) (uint16, uint32) {
	depth := t.cfg.depth()
	leafLevel := depth + t.cfg.TreeHeight - 1 // number of hex digits that address a leaf
	any := false
	for _, it := range t.items {
		if hasPrefix(it.KeyHash, prefix) {
			any = true
			break
		}
	}
	if !any {
		return 0, 0
	}
	if len(prefix) >= leafLevel {
		var h uint16
		var c uint32
		for _, it := range t.items {
			if hasPrefix(it.KeyHash, prefix[:leafLevel]) {
				h += it.VHash * uint16(it.KeyHash>>32)
				c++
			}
		}
		return h, c
	}
	var hs [16]uint16
	var count uint32
	for i := 0; i < 16; i++ {
		ch, cc := t.nodeSummary(append(append([]int{}, prefix...), i))
		hs[i] = ch
		count += cc
	}
	var h uint16
	for i := 0; i < 16; i++ {
		if count > 256 {
			h *= 97
		}
		h += hs[i]
	}
	return h, count
}

// upperSummary returns (hash,count) of a node above (or at) bucket level.
func (t *refTree) upperSummary(prefix []int) (uint16, uint32) {
	depth := t.cfg.depth()
	if len(prefix) == depth {
		b := 0
		for _, p := range prefix {
			b = b*16 + p
		}
		if !t.cfg.served(b) {
			return 0, 0
		}
		return t.nodeSummary(prefix)
	}
	var h uint16
	var c uint32
	for i := 0; i < 16; i++ {
		ch, cc := t.upperSummary(append(append([]int{}, prefix...), i))
		h *= 97
		h += ch
		c += cc
	}
	return h, c
}

// expect computes the reference listing for a prefix. tombOK is the set of key hashes that
// may appear as tombstone entries.
func (t *refTree) expect(prefix []int, threshold uint32) listing {
	depth := t.cfg.depth()
	var l listing
	if len(prefix) < depth {
		l.Kind = "nodes"
		for i := 0; i < 16; i++ {
			h, c := t.upperSummary(append(append([]int{}, prefix...), i))
			l.Nodes = append(l.Nodes, listEntry{Child: i, Hash: h, Count: c})
		}
		return l
	}
	b := 0
	for _, p := range prefix[:depth] {
		b = b*16 + p
	}
	if !t.cfg.served(b) {
		l.Kind = "empty"
		return l
	}
	leafLevel := depth + t.cfg.TreeHeight - 1
	_, count := t.nodeSummary(prefix)
	if len(prefix) >= leafLevel || count < threshold {
		l.Kind = "items"
		for _, it := range t.items {
			if hasPrefix(it.KeyHash, prefix) {
				l.Items = append(l.Items, it)
			}
		}
		return l
	}
	l.Kind = "nodes"
	for i := 0; i < 16; i++ {
		h, c := t.nodeSummary(append(append([]int{}, prefix...), i))
		l.Nodes = append(l.Nodes, listEntry{Child: i, Hash: h, Count: c})
	}
	return l
}

func prefixString(p []int) string {
	var b strings.Builder
	for _, d := range p {
		fmt.Fprintf(&b, "%x", d)
	}
	return b.String()
}

// liveItems returns the definite live items of the model; ok=false if some key's liveness
// or version is still ambiguous.
func (x *seqExec) liveItems() (items []refItem, tomb map[uint64]bool, ok bool) {
	tomb = map[uint64]bool{}
	ok = true
	hf := refKeyHash
	if hashOverride != nil {
		hf = hashOverride
	}
	for _, km := range x.m.Keys {
		if km.Unserved {
			continue
		}
		kh := hf(km.Key)
		if km.Collide {
			ok = false
			continue
		}
		if len(km.Alts) != 1 {
			// tombstone-or-absent is fine (neither is live); anything else is ambiguous
			live := false
			for _, a := range km.Alts {
				if a.live() {
					live = true
				}
			}
			if live {
				ok = false
			}
			tomb[kh] = true
			continue
		}
		a := km.Alts[0]
		switch {
		case a.live():
			items = append(items, refItem{kh, refVHash(a.Val), a.Ver})
		default:
			tomb[kh] = true
		}
	}
	return
}

// fetchListing sends "get @<prefix>" and parses the reply.
func (x *seqExec) fetchListing(prefix string) (listing, bool) {
	r := x.reply(cmdGet("@" + prefix))
	if x.viol != nil {
		return listing{}, false
	}
	if r.Status != "END" || len(r.Items) > 1 {
		x.failSub("R-status", replySub("list", r), fmt.Sprintf("get @%s answered %s", prefix, r))
		return listing{}, false
	}
	if len(r.Items) == 0 {
		return listing{Kind: "empty"}, true
	}
	l, err := parseListing(r.Items[0].Bytes)
	if err != nil {
		x.failSub("R-listing-malformed", "", fmt.Sprintf("get @%s: %v: %q", prefix, err, trunc(string(r.Items[0].Bytes), 200)))
		return listing{}, false
	}
	return l, true
}

// compareListing checks one listing against the reference.
func (x *seqExec) compareListing(prefix []int, got, want listing, tomb map[uint64]bool) {
	ps := prefixString(prefix)
	if want.Kind == "items" && len(want.Items) == 0 && got.Kind == "empty" {
		return
	}
	if want.Kind == "empty" && got.Kind == "items" && len(got.Items) == 0 {
		return
	}
	if got.Kind != want.Kind {
		// an item-level listing with only tombstones vs "empty"
		if want.Kind == "items" && got.Kind == "items" {
			// fallthrough
		} else {
			x.failSub("R-listing-recompute", "kind", fmt.Sprintf("get @%s returned a %s listing, the reference computes a %s listing (%d live items under the prefix)", ps, got.Kind, want.Kind, len(want.Items)))
			return
		}
	}
	switch want.Kind {
	case "nodes":
		for i := range want.Nodes {
			g, w := got.Nodes[i], want.Nodes[i]
			if g.Count != w.Count {
				x.failSub("R-listing-count", "", fmt.Sprintf("get @%s child %x: count %d, %d live keys under it in the model", ps, i, g.Count, w.Count))
				return
			}
			if g.Hash != w.Hash {
				x.failSub("R-listing-recompute", "hash", fmt.Sprintf("get @%s child %x: hash %d, the reference aggregation gives %d (count %d)", ps, i, g.Hash, w.Hash, w.Count))
				return
			}
		}
	case "items":
		wantSet := map[uint64]refItem{}
		for _, it := range want.Items {
			wantSet[it.KeyHash] = it
		}
		seen := map[uint64]bool{}
		for _, it := range got.Items {
			if seen[it.KeyHash] {
				x.failSub("R-listing-ghost", "dup", fmt.Sprintf("get @%s lists key hash %016x twice", ps, it.KeyHash))
				return
			}
			seen[it.KeyHash] = true
			if !hasPrefix(it.KeyHash, prefix) {
				x.failSub("R-listing-ghost", "prefix", fmt.Sprintf("get @%s lists key hash %016x which is not under the prefix", ps, it.KeyHash))
				return
			}
			w, ok := wantSet[it.KeyHash]
			if it.Ver < 0 {
				if ok {
					x.failSub("R-listing-recompute", "tombstone-for-live", fmt.Sprintf("get @%s lists %016x as deleted (ver %d) but the key is live in the model (ver %d)", ps, it.KeyHash, it.Ver, w.Ver))
					return
				}
				if !tomb[it.KeyHash] {
					x.failSub("R-listing-ghost", "tombstone", fmt.Sprintf("get @%s lists a tombstone for unknown key hash %016x", ps, it.KeyHash))
					return
				}
				continue
			}
			if !ok {
				x.failSub("R-listing-ghost", "live", fmt.Sprintf("get @%s lists a live entry %016x (ver %d vhash %d) for a deleted or unknown key", ps, it.KeyHash, it.Ver, it.VHash))
				return
			}
			if it.VHash != w.VHash || it.Ver != w.Ver {
				x.failSub("R-listing-recompute", "item", fmt.Sprintf("get @%s entry %016x: vhash %d ver %d, model vhash %d ver %d", ps, it.KeyHash, it.VHash, it.Ver, w.VHash, w.Ver))
				return
			}
		}
		for kh := range wantSet {
			if !seen[kh] {
				x.failSub("R-listing-count", "missing", fmt.Sprintf("get @%s does not list the live key hash %016x", ps, kh))
				return
			}
		}
	}
}

// doListing: narrow the model by reading every key, then compare listings of drawn prefixes
// (all lengths 0..16) with the reference recomputation.
func (x *seqExec) doListing(seed uint64) {
	if len(x.plan.Groups) > 0 {
		return
	}
	hf := refKeyHash
	if hashOverride != nil {
		hf = hashOverride
	}
	x.verifyAll("pre-listing", false)
	if x.viol != nil {
		return
	}
	items, tomb, ok := x.liveItems()
	if !ok {
		x.out.probe("listing-skipped-ambiguous-model")
		return
	}
	t := &refTree{cfg: &x.plan.Cfg, items: items}
	r := NewRng(seed)
	var prefixes [][]int
	prefixes = append(prefixes, []int{})
	// prefixes along the paths of existing keys (all lengths) and a few random ones
	for _, km := range x.m.Keys {
		if r.Bool(1, 2) {
			d := digitsOf(hf(km.Key), 16)
			prefixes = append(prefixes, d[:r.Range(0, 16)])
		}
	}
	for i := 0; i < 3; i++ {
		n := r.Range(0, 5)
		p := make([]int, n)
		for j := range p {
			p[j] = r.Intn(16)
		}
		prefixes = append(prefixes, p)
	}
	// any order, and the levels above the buckets once more at the end: an upper listing that follows a
	// bucket-level listing of a bucket written since the previous upper listing must still be recomputed
	for i := len(prefixes) - 1; i > 0; i-- {
		j := r.Intn(i + 1)
		prefixes[i], prefixes[j] = prefixes[j], prefixes[i]
	}
	prefixes = append(prefixes, []int{})
	if x.plan.Cfg.depth() > 1 && len(x.m.Keys) > 0 {
		prefixes = append(prefixes, digitsOf(hf(x.m.Keys[r.Intn(len(x.m.Keys))].Key), 16)[:1])
	}
	for _, p := range prefixes {
		want := t.expect(p, x.plan.Cfg.ListKeyThreshold)
		if len(p) < x.plan.Cfg.depth() && r.Bool(1, 2) {
			// a listing above bucket level, asked for by two clients at the same time (two sync
			// peers): both answers must be right. (The upper nodes are rebuilt in place per request.)
			got2, ok2 := listing{}, false
			done := false
			pfx := prefixString(p)
			x.g.W.GoHarness("lister2", func() {
				c2 := x.g.NewConn()
				rr := c2.Do(cmdGet("@" + pfx))
				if rr.Status == "END" && len(rr.Items) == 1 && !rr.Budget {
					if l, err := parseListing(rr.Items[0].Bytes); err == nil {
						got2, ok2 = l, true
					}
				} else if rr.Status == "END" && len(rr.Items) == 0 {
					got2, ok2 = listing{Kind: "empty"}, true
				}
				c2.Close()
				done = true
			})
			got, ok := x.fetchListing(pfx)
			x.g.W.WaitCond("lister2-done", func() bool { return done })
			if !ok {
				return
			}
			x.compareListing(p, got, want, tomb)
			if x.viol == nil && ok2 {
				x.compareListing(p, got2, want, tomb)
				if x.viol != nil {
					x.viol.Sub = "concurrent-listing/" + x.viol.Sub
				}
				x.out.probe("upper-listing-by-two-clients-at-once")
			}
			if x.viol != nil {
				return
			}
			continue
		}
		got, ok := x.fetchListing(prefixString(p))
		if !ok {
			return
		}
		x.compareListing(p, got, want, tomb)
		if x.viol != nil {
			return
		}
		x.out.probe("listing-compared:" + want.Kind)
		if want.Kind == "items" && len(want.Items) >= 100 {
			x.out.probe("leaf>=100-items(C-search)")
		}
		if want.Kind == "nodes" {
			var n uint32
			for _, e := range want.Nodes {
				n += e.Count
			}
			if n > 256 {
				x.out.probe("node>256-keys(x97-fold)")
			}
		}
		if len(p) < x.plan.Cfg.depth() {
			x.out.probe("upper-listing")
		}
	}
}

// walkListing fetches the complete listing tree from the empty prefix down (C08 pairwise).
func (x *seqExec) walkListing(max int) map[string]listing {
	out := map[string]listing{}
	queue := []string{""}
	for len(queue) > 0 && len(out) < max {
		p := queue[0]
		queue = queue[1:]
		l, ok := x.fetchListing(p)
		if !ok {
			return out
		}
		out[p] = l
		if l.Kind == "nodes" {
			for i, n := range l.Nodes {
				if n.Count > 0 || len(p) < x.plan.Cfg.depth() {
					queue = append(queue, p+fmt.Sprintf("%x", i))
				}
			}
		}
		if l.Kind == "items" && len(p) < 16 {
			// descend along the live items to exercise longer prefixes (filtering at leaf level)
			seen := map[string]bool{}
			var live []refItem
			for _, it := range l.Items {
				if it.Ver > 0 {
					live = append(live, it)
				}
			}
			sort.Slice(live, func(i, j int) bool { return live[i].KeyHash < live[j].KeyHash })
			for _, it := range live {
				s := fmt.Sprintf("%016x", it.KeyHash)
				np := s[:len(p)+1]
				if !seen[np] && len(seen) < 2 {
					seen[np] = true
					queue = append(queue, np)
				}
			}
		}
	}
	return out
}

func sortedListingKeys(m map[string]listing) []string {
	var ks []string
	for k := range m {
		ks = append(ks, k)
	}
	sort.Strings(ks)
	return ks
}
