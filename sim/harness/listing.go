package main

func (x *seqExec) doListing(seed uint64) {}
