package main

import (
	"flag"
	"fmt"
	"os"
	"os/exec"
	"strings"
	"sync"
)

// Determinism self-test: the same seeds are executed in several fresh processes at different
// GOMAXPROCS values; the canonical event logs (every disk event with its bytes, every reply,
// the schedule trace, step and simulated-time totals, probes) must be identical.
func selftestMain(args []string) {
	fs := flag.NewFlagSet("selftest", flag.ExitOnError)
	props := fs.String("props", "C01", "comma separated properties")
	n := fs.Int("n", 40, "seeds per property")
	seed := fs.Uint64("seed", 7, "base seed")
	reps := fs.Int("reps", 2, "processes per GOMAXPROCS value")
	fs.Parse(args)
	self, _ := os.Executable()
	bad := 0
	total := 0
	for _, prop := range strings.Split(*props, ",") {
		if _, ok := engines[prop]; !ok {
			fmt.Println("selftest: no engine for", prop)
			os.Exit(2)
		}
		type run struct {
			procs string
			out   map[int]string
		}
		var runs []run
		var mu sync.Mutex
		var wg sync.WaitGroup
		for _, procs := range []string{"1", "4", "16"} {
			for r := 0; r < *reps; r++ {
				wg.Add(1)
				go func(procs string) {
					defer wg.Done()
					cmd := exec.Command(self, "worker", "-prop", prop, "-seed", fmt.Sprint(*seed), "-from", "0", "-n", fmt.Sprint(*n), "-log")
					cmd.Env = append(os.Environ(), "GOMAXPROCS="+procs)
					b, _ := cmd.Output()
					m := map[int]string{}
					for _, l := range strings.Split(string(b), "\n") {
						if strings.HasPrefix(l, "LOG ") {
							var idx int
							fmt.Sscanf(l[4:], "%d", &idx)
							m[idx] = l
						}
					}
					mu.Lock()
					runs = append(runs, run{procs, m})
					mu.Unlock()
				}(procs)
			}
		}
		wg.Wait()
		for i := 0; i < *n; i++ {
			total++
			ref := runs[0].out[i]
			same := ref != ""
			for _, r := range runs[1:] {
				if r.out[i] != ref {
					same = false
				}
			}
			if !same {
				bad++
				fmt.Printf("NONDETERMINISTIC %s world %d:\n", prop, i)
				for _, r := range runs {
					fmt.Printf("  GOMAXPROCS=%s: %s\n", r.procs, trunc(r.out[i], 400))
				}
			}
		}
		fmt.Printf("selftest %s: %d seeds x %d processes (GOMAXPROCS 1/4/16)\n", prop, *n, len(runs))
	}
	if bad > 0 {
		fmt.Printf("selftest: %d of %d worlds diverged\n", bad, total)
		os.Exit(2)
	}
	fmt.Printf("selftest: all %d worlds identical across processes\n", total)
}
