package main

import (
	"time"
	"bytes"
	"encoding/binary"
	"fmt"
	"os"
	"path/filepath"
	"sort"
	"strconv"
	"strings"

	simrt "github.com/douban/gobeansdb/zzsimrt"
)

// Corruption engine (C09). Phase 1 builds a store from a generated history (all 32-bit flags,
// explicit revisions, timestamps spread by clock jumps, sizes around block boundaries), flushes
// and closes it; the independent decoder must reproduce the model's append log from the bytes
// on disk. Phase 2 applies corruption faults to copies of that directory and checks
// (a) positional reads (index files intact): a get fails, misses or returns bytes really
// written for that key; (b) sequential scan (index files removed): every key reads its newest
// intact record per the independent resynchronising scanner, at the scanner's offset.

type corruptFault struct {
	Kind string
	File string // relative path
	Off  int64
	Arg  int64
}

func (f corruptFault) String() string {
	return fmt.Sprintf("%s %s@%d arg=%d", f.Kind, f.File, f.Off, f.Arg)
}

type corruptExec struct {
	x        *seqExec
	thorough bool
	cases    int64
	classes  map[string]bool
	appendLog []appendExp
}

type appendExp struct {
	Key  []byte
	Ver  int32
	Flag uint32
	Val  []byte
	Tomb bool
	TSLo, TSHi int64
	OpID int
}

func applyFault(dir string, f corruptFault) error {
	p := filepath.Join(dir, f.File)
	data, err := os.ReadFile(p)
	if err != nil {
		return err
	}
	switch f.Kind {
	case "bitflip":
		if int(f.Off) < len(data) {
			data[f.Off] ^= byte(1 << uint(f.Arg&7))
		}
	case "bitflip3":
		for i := int64(0); i < 3; i++ {
			o := f.Off + i*(f.Arg%97+1)
			if int(o) < len(data) {
				data[o] ^= byte(1 << uint((f.Arg+i)&7))
			}
		}
	case "byte":
		if int(f.Off) < len(data) {
			if data[f.Off] == byte(f.Arg) {
				data[f.Off] = byte(f.Arg) + 1
			} else {
				data[f.Off] = byte(f.Arg)
			}
		}
	case "zeroblock":
		o := f.Off &^ 255
		for i := o; i < o+256 && int(i) < len(data); i++ {
			data[i] = 0
		}
	case "truncate":
		if int(f.Off) < len(data) {
			data = data[:f.Off]
		}
	case "ksz", "vsz":
		// f.Off is the record offset
		fo := f.Off + 16
		if f.Kind == "vsz" {
			fo = f.Off + 20
		}
		if int(fo)+4 <= len(data) {
			binary.LittleEndian.PutUint32(data[fo:], uint32(f.Arg))
		}
	}
	return os.WriteFile(p, data, 0644)
}

func genCorruptPlan(prop string, seed uint64, tier string) *Plan {
	p := genSeqPlan("C09", seed, tier)
	p.Prop = "C09"
	c := &p.Cfg
	if c.TreeHeight > 3 {
		c.TreeHeight = 3
	}
	if len(c.Served) > 1 {
		c.Served = c.Served[:1]
	}
	c.Background = false
	c.CheckVHash = false
	if c.BodyMax > 16384 {
		c.BodyMax = 16384
	}
	c.normalize()
	for i := range p.Ops {
		if p.Ops[i].Kind == "set" && p.Ops[i].V.Len > int(c.BodyMax) {
			p.Ops[i].V.Len = int(c.BodyMax)
		}
	}
	if tier == "thorough" {
		p.Extra["thorough"] = 1
	}
	return p
}

func runCorrupt(plan *Plan, tape *simrt.Tape) *Outcome {
	c := &corruptExec{classes: map[string]bool{}}
	c.thorough = plan.Extra["thorough"] == 1
	var base string
	out := runSeqHooked(plan, tape, func(x *seqExec) {
		c.x = x
		x.noFinalRestart = true
	}, func(x *seqExec) {
		if x.viol != nil || x.out.Inconclusive != "" {
			return
		}
		base = x.sim.Dir
		c.checkAppendLog(base)
		if x.viol != nil {
			return
		}
		c.enumerate(base)
		nt := c.cases > 0
		x.nontrivial = &nt
	})
	out.Cases = c.cases
	for k := range c.classes {
		out.CaseClasses = append(out.CaseClasses, k)
	}
	sort.Strings(out.CaseClasses)
	out.DistinctCases = int64(len(c.classes))
	return out
}

// checkAppendLog: the sequential decode of all data files equals the model's append log
// (without GC, file order is write order), every record occupies whole 256-byte blocks.
func (c *corruptExec) checkAppendLog(dir string) {
	x := c.x
	cfg := &x.plan.Cfg
	for _, b := range cfg.Served {
		bdir := x.sim.bucketDir(b)
		snap := snapshotDataFiles(bdir)
		var names []string
		for n := range snap {
			names = append(names, n)
		}
		sort.Strings(names)
		var got []refRecord
		for _, n := range names {
			sc := refScanBytes(snap[n], 250, int(cfg.BodyMax))
			if len(sc.Broken) > 0 || sc.PartialEnd {
				x.failSub("R-layout", "unreadable", fmt.Sprintf("%s/%s: blocks %v do not decode, partialEnd=%v", bdir, n, sc.Broken, sc.PartialEnd))
				return
			}
			got = append(got, sc.Recs...)
		}
		// expected: accepted writes of this bucket in op order
		type exp struct {
			key  []byte
			w    WriteRec
		}
		var want []exp
		for _, km := range x.m.Keys {
			if km.Unserved || bucketOf(cfg, km.Key) != b {
				continue
			}
			for _, w := range km.Writes {
				want = append(want, exp{km.Key, w})
			}
		}
		sort.SliceStable(want, func(i, j int) bool { return want[i].w.ID < want[j].w.ID })
		// the model may list two alternatives for one op (incr on a tombstone): collapse by op id
		var want2 []exp
		for _, e := range want {
			if n := len(want2); n > 0 && want2[n-1].w.ID == e.w.ID {
				continue
			}
			want2 = append(want2, e)
		}
		if len(got) != len(want2) {
			x.failSub("R-layout", "count", fmt.Sprintf("bucket %x: %d records on disk, %d accepted writes in the model", b, len(got), len(want2)))
			return
		}
		for i, r := range got {
			e := want2[i]
			val, ok := storedValue(r)
			if !ok {
				x.failSub("R-layout", "decompress", fmt.Sprintf("record %d (key %q): stored value does not decompress", i, trunc(string(r.Key), 30)))
				return
			}
			if !bytes.Equal(r.Key, e.key) || (e.w.Tomb != (r.Ver < 0)) || (!e.w.Tomb && !bytes.Equal(val, e.w.Val)) ||
				(!e.w.Tomb && r.Flag&^flagServerCompress != e.w.Flag) {
				x.failSub("R-layout", "content", fmt.Sprintf("record %d on disk is (key %q ver %d flag %#x %d bytes), the model's write #%d is (key %q ver %d flag %#x %d bytes tomb=%v)",
					i, trunc(string(r.Key), 30), r.Ver, r.Flag, len(val), e.w.ID, trunc(string(e.key), 30), e.w.Ver, e.w.Flag, len(e.w.Val), e.w.Tomb))
				return
			}
			if r.Size%256 != 0 || r.Off%256 != 0 {
				x.failSub("R-layout", "align", fmt.Sprintf("record %d at %d size %d not block aligned", i, r.Off, r.Size))
				return
			}
			if r.Flag&flagServerCompress != 0 {
				x.out.probe("value-compressed")
			}
		}
		x.out.probe("append-log-verified")
	}
}

func (c *corruptExec) faultsFor(base string) []corruptFault {
	x := c.x
	cfg := &x.plan.Cfg
	var out []corruptFault
	r := NewRng(x.plan.Seed ^ 0xfa17)
	for _, b := range cfg.Served {
		bdir := x.sim.bucketDir(b)
		rel, _ := filepath.Rel(base, bdir)
		snap := snapshotDataFiles(bdir)
		var names []string
		for n := range snap {
			names = append(names, n)
		}
		sort.Strings(names)
		for _, n := range names {
			data := snap[n]
			file := filepath.Join(rel, n)
			sc := refScanBytes(data, 250, int(cfg.BodyMax))
			for _, rec := range sc.Recs {
				o := int64(rec.Off)
				end := o + int64(recHdr+len(rec.Key)+len(rec.Val))
				pos := []int64{o, o + 3, o + 4, o + 8, o + 12, o + 16, o + 20, o + 24, o + 24 + int64(len(rec.Key))/2, end - 1}
				if len(rec.Val) > 0 {
					pos = append(pos, o+24+int64(len(rec.Key))+int64(len(rec.Val))/2)
				}
				for _, p := range pos {
					if p < end {
						out = append(out, corruptFault{"bitflip", file, p, int64(r.Intn(8))})
					}
				}
				out = append(out, corruptFault{"bitflip3", file, o + int64(r.Intn(int(end-o))), int64(r.Intn(1000))})
				out = append(out, corruptFault{"byte", file, o + int64(r.Intn(int(end-o))), int64(r.Intn(256))})
				out = append(out, corruptFault{"zeroblock", file, o, 0})
				if rec.Size > 256 {
					out = append(out, corruptFault{"zeroblock", file, o + int64(rec.Size) - 256, 0})
					out = append(out, corruptFault{"zeroblock", file, o + 256*int64(r.Intn(int(rec.Size/256))), 0})
				}
				out = append(out, corruptFault{"truncate", file, o, 0})
				out = append(out, corruptFault{"truncate", file, o + int64(r.Range(1, int(rec.Size)-1)), 0})
				out = append(out, corruptFault{"truncate", file, o + 256*int64(r.Intn(int(rec.Size/256)+1)), 0})
				for _, v := range []int64{0, 0xffffffff, 251, int64(len(rec.Key)) + 1, 1} {
					out = append(out, corruptFault{"ksz", file, o, v})
				}
				for _, v := range []int64{0, 0xffffffff, int64(cfg.BodyMax) + 1, int64(len(rec.Val)) + 1, int64(len(rec.Val)) + 256, int64(cfg.BodyMax), 255} {
					if v != int64(len(rec.Val)) {
						out = append(out, corruptFault{"vsz", file, o, v})
					}
				}
			}
		}
	}
	return out
}

func (c *corruptExec) enumerate(base string) {
	x := c.x
	faults := c.faultsFor(base)
	x.out.Probes["corruption-faults-enumerable"] += int64(len(faults))
	if !c.thorough {
		// quick tier: a drawn subset
		n := 14
		if len(faults) > n {
			r := NewRng(x.plan.Seed ^ 0x5eed)
			for i := len(faults) - 1; i > 0; i-- {
				j := r.Intn(i + 1)
				faults[i], faults[j] = faults[j], faults[i]
			}
			faults = faults[:n]
		}
	} else if len(faults) > 1500 {
		faults = faults[:1500]
	}
	for _, f := range faults {
		for _, mode := range []string{"positional", "rescan"} {
			c.runCase(base, f, mode)
			if x.viol != nil {
				return
			}
		}
	}
}

func (c *corruptExec) runCase(base string, f corruptFault, mode string) {
	x := c.x
	plan := x.plan
	cfg := &plan.Cfg
	d := mkWorldDir()
	defer os.RemoveAll(d)
	if err := copyTree(base, d); err != nil {
		return
	}
	if mode == "rescan" {
		for _, name := range sortedKeys(listFiles(d)) {
			switch fileClass(name) {
			case "tree", "hint", "merged":
				os.Remove(filepath.Join(d, name))
			}
		}
	}
	if err := applyFault(d, f); err != nil {
		return
	}
	c.cases++
	x.out.fault("corrupt-" + f.Kind + "/" + mode)
	sim2 := NewSim(plan.Cfg, d, x.sim.Tape)
	sim2.Cfg.Background = false
	type result struct {
		hit  bool
		val  []byte
		flag uint64
		err  string
		pos  string
	}
	results := make([]result, len(plan.Keys))
	done := false
	// in a third of the rescan cases the damaged files are then garbage collected (and the store
	// restarted once more): every key must go on reading what it read after the rescan, and GC
	// must leave files the store can open again
	gcAfter := mode == "rescan" && len(cfg.Served) > 0 && (uint64(f.Off)*31+uint64(f.Arg)*7+plan.Seed)%3 == 0
	gcRan := false
	var preGC map[int]dataSnap // the damaged files as the rescan saw them (before GC rewrote them)
	var results2 []result
	readAll := func(cl *PClient) []result {
		out := make([]result, len(plan.Keys))
		for k, key := range plan.Keys {
			r := cl.Do(cmdGet(string(key)))
			switch {
			case r.Budget:
				out[k].err = "budget"
			case r.Malformed != "" || r.Closed || r.NoReply:
				out[k].err = "protocol: " + r.String()
			case r.Status != "END":
				out[k].err = r.Status + " " + r.Msg
			case len(r.Items) == 1:
				out[k].hit = true
				out[k].val = r.Items[0].Bytes
				out[k].flag = r.Items[0].Flag
			}
		}
		return out
	}
	g, res := sim2.Run(func(g *Gen) {
		cl := g.NewConn()
		defer func() {
			if !gcAfter || !done {
				return
			}
			g.W.WaitIdle()
			g.W.Advance(2 * time.Second)
			g.W.WaitIdle()
			preGC = map[int]dataSnap{}
			for _, b := range cfg.Served {
				preGC[b] = snapshotDataFiles(sim2.bucketDir(b))
			}
			for _, b := range cfg.Served {
				n := g.W.NumTasks()
				if _, _, err := g.H.GC(b, 0, -1, 0, false, false); err != nil {
					continue
				}
				if !g.W.WaitCondTimeout("gc-done", 2*time.Hour, func() bool { return g.W.TasksDone("store.gcMgr.gc", n) }) {
					return
				}
				gcRan = true
			}
			if gcRan {
				results2 = readAll(cl)
				g.H.Close()
			}
		}()
		for k, key := range plan.Keys {
			r := cl.Do(cmdGet(string(key)))
			switch {
			case r.Budget:
				results[k].err = ""
			case r.Malformed != "" || r.Closed || r.NoReply:
				results[k].err = "protocol: " + r.String()
			case r.Status != "END":
				results[k].err = r.Status + " " + r.Msg
			case len(r.Items) == 1:
				results[k].hit = true
				results[k].val = r.Items[0].Bytes
				results[k].flag = r.Items[0].Flag
			}
			if mode == "rescan" && len(key)+2 <= 250 {
				r2 := cl.Do(cmdGet("??" + string(key)))
				if r2.Status == "END" && len(r2.Items) == 1 {
					results[k].pos = string(r2.Items[0].Bytes)
				}
			}
		}
		done = true
	})
	x.out.Steps += sim2.Steps
	x.out.SimNS += sim2.SimNS
	desc := fmt.Sprintf("fault %s (%s reads)", f, mode)
	if gcRan && res.Status == simrt.StatusDone && results2 != nil {
		x.out.probe("gc-over-damaged-files")
		same := func(phase string, after []result) bool {
			for k, key := range plan.Keys {
				a, b := results[k], after[k]
				if x.m.Keys[k].Unserved || a.err != "" || b.err == "budget" {
					continue
				}
				if a.hit != b.hit || !bytes.Equal(a.val, b.val) || a.flag != b.flag || b.err != "" {
					got := "miss"
					if b.err != "" {
						got = "error " + trunc(b.err, 150)
					} else if b.hit {
						got = fmt.Sprintf("%d bytes %q", len(b.val), trunc(string(b.val), 30))
					}
					was := "miss"
					if a.hit {
						was = fmt.Sprintf("%d bytes %q", len(a.val), trunc(string(a.val), 30))
					}
					x.failSub("R-corrupt-gc-changed-read", phase, fmt.Sprintf("%s: key k%d %q read %s after the rescan; %s it reads %s", desc, k, trunc(string(key), 30), was, phase, got))
					return false
				}
			}
			return true
		}
		if !same("after GC over the damaged files", results2) {
			return
		}
		// and once more after a clean restart
		var results3 []result
		g3, res3 := sim2.Run(func(g *Gen) {
			results3 = readAll(g.NewConn())
		})
		x.out.Steps += sim2.Steps
		if g3.OpenErr != nil || res3.Status == simrt.StatusFatal {
			msg := res3.Msg
			if g3.OpenErr != nil {
				msg = g3.OpenErr.Error()
			}
			x.failSub("R-corrupt-gc-changed-read", "refused-after-gc", fmt.Sprintf("%s: after GC over the damaged files and a clean shutdown the store refuses to start: %s", desc, trunc(msg, 200)))
			return
		}
		if res3.Status == simrt.StatusDone && results3 != nil {
			if !same("after GC and a clean restart", results3) {
				return
			}
			x.out.probe("gc-over-damaged-files-restart-checked")
		}
	}
	refused := g.OpenErr != nil || res.Status == simrt.StatusFatal
	// independent view of the damaged files
	type drec struct {
		chunk int
		rec   refRecord
		val   []byte
	}
	durable := map[string][]drec{}
	partial := false
	for _, b := range cfg.Served {
		bdir := sim2.bucketDir(b)
		snap := snapshotDataFiles(bdir)
		if preGC != nil {
			snap = preGC[b]
		}
		var names []string
		for n := range snap {
			names = append(names, n)
		}
		sort.Strings(names)
		for _, n := range names {
			sc := refScanBytes(snap[n], 250, int(cfg.BodyMax))
			if sc.PartialEnd {
				partial = true
			}
			for _, r := range sc.Recs {
				v, ok := storedValue(r)
				if !ok {
					continue
				}
				durable[string(r.Key)] = append(durable[string(r.Key)], drec{chunkOfName(n), r, append([]byte(nil), v...)})
			}
		}
	}
	c.classes[fmt.Sprintf("%s/%s/refused=%v/partial=%v", f.Kind, mode, refused, partial)] = true
	if refused {
		if partial || mode == "positional" {
			x.out.probe("corrupt-refused-to-start")
			return
		}
		msg := res.Msg
		if g.OpenErr != nil {
			msg = g.OpenErr.Error()
		}
		x.failSub("R-corrupt-lost-intact", "refused", fmt.Sprintf("%s: the store refused to start (%s) although the damage does not leave a partial record at the end of a file: intact records after the damage are not served", desc, trunc(msg, 200)))
		return
	}
	if res.Status != simrt.StatusDone || !done {
		if res.Status == simrt.StatusStepCap {
			return
		}
		x.failSub("R-corrupt-recovery-"+simrt.StatusName(res.Status), "", fmt.Sprintf("%s: %s\n%s", desc, res.String(), trunc(res.Stack, 1200)))
		return
	}
	for k, key := range plan.Keys {
		km := x.m.Keys[k]
		if km.Unserved {
			continue
		}
		r := results[k]
		kd := fmt.Sprintf("%s: key k%d %q", desc, k, trunc(string(key), 30))
		if r.hit {
			// never anything but bytes really written for this key, with that write's flags
			ok := false
			for _, w := range km.Writes {
				if !w.Tomb && bytes.Equal(w.Val, r.val) && uint64(w.Flag) == r.flag {
					ok = true
				}
			}
			if !ok {
				x.failSub("R-corrupt-served", mode, fmt.Sprintf("%s: served %d bytes %q flag %d which is not a value written for this key", kd, len(r.val), trunc(string(r.val), 40), r.flag))
				return
			}
		}
		if mode != "rescan" {
			continue
		}
		recs := durable[string(key)]
		if len(recs) == 0 {
			if r.hit {
				x.failSub("R-corrupt-served", "no-intact-record", fmt.Sprintf("%s: served a value although no intact record of the key is left", kd))
				return
			}
			continue
		}
		newest := recs[len(recs)-1]
		if newest.rec.Ver < 0 {
			if r.hit {
				x.failSub("R-corrupt-lost-intact", "tombstone", fmt.Sprintf("%s: served a value although the newest intact record is a tombstone at file %d offset %d", kd, newest.chunk, newest.rec.Off))
				return
			}
			continue
		}
		if r.err != "" || !r.hit {
			x.failSub("R-corrupt-lost-intact", "unreadable", fmt.Sprintf("%s: get gave %q/miss although the intact record at file %d offset %d (ver %d) follows the damage", kd, trunc(r.err, 120), newest.chunk, newest.rec.Off, newest.rec.Ver))
			return
		}
		if !bytes.Equal(r.val, newest.val) {
			x.failSub("R-corrupt-lost-intact", "older", fmt.Sprintf("%s: served %q but the newest intact record (file %d offset %d) holds %q", kd, trunc(string(r.val), 30), newest.chunk, newest.rec.Off, trunc(string(newest.val), 30)))
			return
		}
		if r.pos != "" {
			f := strings.Split(r.pos, " ")
			if len(f) == 7 {
				ch, _ := strconv.Atoi(f[5])
				off, _ := strconv.Atoi(f[6])
				if ch != newest.chunk || uint32(off) != newest.rec.Off {
					x.failSub("R-corrupt-lost-intact", "offset", fmt.Sprintf("%s: the scan placed the record at file %d offset %d, the independent scanner finds it at file %d offset %d", kd, ch, off, newest.chunk, newest.rec.Off))
					return
				}
				x.out.probe("rescan-offset-verified")
			}
		}
	}
}

func init() {
	engines["C09"] = engine{genCorruptPlan, runCorrupt}
}
