package main

import (
	"bytes"
	"encoding/json"
	"flag"
	"fmt"
	"os"
	"time"

	simrt "github.com/douban/gobeansdb/zzsimrt"
)

// Minimiser: shrinks the plan (operations, values, configuration) and the schedule / fault
// tapes while the same violation class (property + rule) reproduces.

type minimiser struct {
	rf       *ReplayFile
	class    string
	deadline time.Time
	tries    int
	accepted int
}

func clonePlan(p *Plan) *Plan {
	b, _ := json.Marshal(p)
	var q Plan
	json.Unmarshal(b, &q)
	return &q
}

func (m *minimiser) test(p *Plan, sched, fault []int32) *Violation {
	if time.Now().After(m.deadline) {
		return nil
	}
	m.tries++
	out := replayPlan(clonePlan(p), sched, fault)
	if out.Violation != nil && out.Violation.Class() == m.class {
		m.accepted++
		return out.Violation
	}
	return nil
}

// research: a concurrent plan changed by the minimiser usually invalidates the recorded
// schedule tape (choices are positional). Search a few fresh seeded schedules for the changed
// plan; if one reproduces the violation class, adopt the plan together with its new tapes.
func (m *minimiser) research(p *Plan, n int) (*Violation, []int32, []int32) {
	e := engines[p.Prop]
	for i := 0; i < n; i++ {
		if time.Now().After(m.deadline) {
			return nil, nil, nil
		}
		m.tries++
		tape := simrt.NewTape(p.Seed + uint64(i+1)*7919 + uint64(m.tries)*104729)
		out := e.run(clonePlan(p), tape)
		if out.Violation != nil && out.Violation.Class() == m.class {
			m.accepted++
			return out.Violation, out.Tapes[simrt.StreamSched], out.Tapes[simrt.StreamFault]
		}
	}
	return nil, nil, nil
}

func zeros(n int) []int32 { return make([]int32, n) }

func (m *minimiser) run() {
	rf := m.rf
	// 1. no preemptions at all?
	if v := m.test(rf.Plan, nil, rf.Fault); v != nil {
		rf.Sched = nil
		rf.Violation = v
	}
	if len(rf.Fault) > 0 {
		if v := m.test(rf.Plan, rf.Sched, nil); v != nil {
			rf.Fault = nil
			rf.Violation = v
		}
	}
	// 2. delete operations (ddmin style) from every op list
	lists := func(p *Plan) []*[]Op {
		ls := []*[]Op{&p.Ops}
		for i := range p.Clients {
			ls = append(ls, &p.Clients[i])
		}
		return ls
	}
	for li := range lists(rf.Plan) {
		n := len(*lists(rf.Plan)[li])
		for chunk := n / 2; chunk >= 1; chunk /= 2 {
			for start := 0; start < len(*lists(rf.Plan)[li]); {
				cur := *lists(rf.Plan)[li]
				end := start + chunk
				if end > len(cur) {
					end = len(cur)
				}
				cand := clonePlan(rf.Plan)
				l := lists(cand)[li]
				*l = append(append([]Op{}, cur[:start]...), cur[end:]...)
				if v := m.test(cand, rf.Sched, rf.Fault); v != nil {
					rf.Plan = cand
					rf.Violation = v
				} else if len(rf.Plan.Clients) > 0 && chunk <= 8 {
					if v, sc, fa := m.research(cand, 4); v != nil {
						rf.Plan = cand
						rf.Violation = v
						rf.Sched = sc
						rf.Fault = fa
					} else {
						start += chunk
					}
				} else {
					start += chunk
				}
				if time.Now().After(m.deadline) {
					return
				}
			}
		}
	}
	// 2b. protocol streams: remove line-delimited segments of each connection's byte stream
	for i := range rf.Plan.Ops {
		if len(rf.Plan.Ops[i].Raw) == 0 {
			continue
		}
		segs := bytes.SplitAfter(rf.Plan.Ops[i].Raw, []byte("\n"))
		for chunk := len(segs) / 2; chunk >= 1; chunk /= 2 {
			for start := 0; start < len(segs); {
				end := start + chunk
				if end > len(segs) {
					end = len(segs)
				}
				var nb []byte
				for j, sg := range segs {
					if j < start || j >= end {
						nb = append(nb, sg...)
					}
				}
				cand := clonePlan(rf.Plan)
				cand.Ops[i].Raw = nb
				cand.Ops[i].At = len(nb)
				cand.Ops[i].Frag = []int{len(nb)}
				if v := m.test(cand, rf.Sched, rf.Fault); v != nil {
					rf.Plan = cand
					rf.Violation = v
					segs = append(append([][]byte{}, segs[:start]...), segs[end:]...)
				} else {
					start += chunk
				}
				if time.Now().After(m.deadline) {
					return
				}
			}
		}
	}
	// 3. simplify configuration knobs
	simplify := []func(c *SimCfg) bool{
		func(c *SimCfg) bool { ch := c.StmtYield; c.StmtYield = false; return ch },
		func(c *SimCfg) bool { ch := c.FuncYield; c.FuncYield = false; c.StmtYield = false; return ch },
		func(c *SimCfg) bool { ch := c.Background; c.Background = false; return ch },
		func(c *SimCfg) bool { ch := c.Policy != 0; c.Policy = 0; return ch },
		func(c *SimCfg) bool { ch := c.QuantumNS != 1000; c.QuantumNS = 1000; return ch },
		func(c *SimCfg) bool { ch := c.BodyInC != 4096; c.BodyInC = 4096; return ch },
		func(c *SimCfg) bool { ch := c.BufIOCap != 1<<20; c.BufIOCap = 1 << 20; return ch },
		func(c *SimCfg) bool { ch := c.SplitCap != 1024; c.SplitCap = 1024; return ch },
		func(c *SimCfg) bool { ch := c.TreeHeight != 3 && c.TreeHeight > 2; c.TreeHeight = 3; return ch },
		func(c *SimCfg) bool { ch := c.CheckVHash; c.CheckVHash = false; return ch },
	}
	for _, f := range simplify {
		cand := clonePlan(rf.Plan)
		if !f(&cand.Cfg) {
			continue
		}
		if v := m.test(cand, rf.Sched, rf.Fault); v != nil {
			rf.Plan = cand
			rf.Violation = v
		}
	}
	// 4. simplify operation arguments
	for li := range lists(rf.Plan) {
		for i := range *lists(rf.Plan)[li] {
			op := (*lists(rf.Plan)[li])[i]
			try := func(mut func(o *Op) bool) {
				cand := clonePlan(rf.Plan)
				o := &(*lists(cand)[li])[i]
				if !mut(o) {
					return
				}
				if v := m.test(cand, rf.Sched, rf.Fault); v != nil {
					rf.Plan = cand
					rf.Violation = v
				}
			}
			if op.Kind == "set" {
				try(func(o *Op) bool { ch := o.V.Len > 10; o.V.Len = 10; o.V.Class = VConst; return ch })
				try(func(o *Op) bool { ch := o.Flag != 0; o.Flag = 0; return ch })
				try(func(o *Op) bool { ch := o.Rev != 0; o.Rev = 0; return ch })
				try(func(o *Op) bool { ch := o.Verb != "set" && o.Verb != ""; o.Verb = "set"; return ch })
			}
			if op.Kind == "restart" {
				try(func(o *Op) bool { ch := len(o.Del) > 0; o.Del = nil; return ch })
			}
			if time.Now().After(m.deadline) {
				return
			}
		}
	}
	// 5. schedule: truncate, then zero chunks
	if len(rf.Sched) > 0 {
		for n := len(rf.Sched) / 2; n >= 1; n /= 2 {
			for len(rf.Sched) > n {
				cand := rf.Sched[:len(rf.Sched)-n]
				if v := m.test(rf.Plan, cand, rf.Fault); v != nil {
					rf.Sched = cand
					rf.Violation = v
				} else {
					break
				}
			}
		}
		for chunk := len(rf.Sched) / 2; chunk >= 1; chunk /= 2 {
			for start := 0; start < len(rf.Sched); start += chunk {
				end := start + chunk
				if end > len(rf.Sched) {
					end = len(rf.Sched)
				}
				nz := false
				for _, x := range rf.Sched[start:end] {
					if x != 0 {
						nz = true
					}
				}
				if !nz {
					continue
				}
				cand := append([]int32{}, rf.Sched...)
				for i := start; i < end; i++ {
					cand[i] = 0
				}
				if v := m.test(rf.Plan, cand, rf.Fault); v != nil {
					rf.Sched = cand
					rf.Violation = v
				}
				if time.Now().After(m.deadline) {
					return
				}
			}
			if chunk > 64 && m.tries > 400 {
				break
			}
		}
		// drop trailing zeros
		n := len(rf.Sched)
		for n > 0 && rf.Sched[n-1] == 0 {
			n--
		}
		rf.Sched = rf.Sched[:n]
	}
}

func describe(rf *ReplayFile) []string {
	var tr []string
	p := rf.Plan
	tr = append(tr, fmt.Sprintf("config: %s", cfgClass(&p.Cfg)))
	for i, k := range p.Keys {
		tr = append(tr, fmt.Sprintf("key k%d = %q (bucket %x, served=%v)", i, trunc(string(k), 60), bucketOf(&p.Cfg, k), p.Cfg.served(bucketOf(&p.Cfg, k))))
	}
	for _, o := range p.Ops {
		tr = append(tr, "op "+o.String())
	}
	for ci, cl := range p.Clients {
		for _, o := range cl {
			tr = append(tr, fmt.Sprintf("client %d op %s", ci, o.String()))
		}
	}
	np := 0
	for _, x := range rf.Sched {
		if x != 0 {
			np++
		}
	}
	tr = append(tr, fmt.Sprintf("schedule: %d decisions, %d non-default choices (preemptions)", len(rf.Sched), np))
	tr = append(tr, fmt.Sprintf("fault tape: %v", rf.Fault))
	return tr
}

func minimiseMain(args []string) {
	fs := flag.NewFlagSet("minimise", flag.ExitOnError)
	budget := fs.Int("budget", 60, "seconds")
	fs.Parse(args)
	if fs.NArg() != 2 {
		fmt.Fprintln(os.Stderr, "usage: harness minimise [-budget s] in.json out.json")
		os.Exit(2)
	}
	b, err := os.ReadFile(fs.Arg(0))
	if err != nil {
		fmt.Fprintln(os.Stderr, err)
		os.Exit(2)
	}
	var rf ReplayFile
	if err := json.Unmarshal(b, &rf); err != nil || rf.Violation == nil {
		fmt.Fprintln(os.Stderr, "bad replay file")
		os.Exit(2)
	}
	m := &minimiser{rf: &rf, class: rf.Violation.Class(), deadline: time.Now().Add(time.Duration(*budget) * time.Second)}
	// the recorded tapes must reproduce first
	if v := m.test(rf.Plan, rf.Sched, rf.Fault); v == nil {
		fmt.Println("MINIMISE: recorded tapes do not reproduce the violation class " + m.class)
		os.Exit(3)
	}
	m.run()
	rf.Minimised = true
	rf.MinStats = fmt.Sprintf("tries=%d accepted=%d", m.tries, m.accepted)
	rf.Trace = describe(&rf)
	out, _ := json.MarshalIndent(&rf, "", " ")
	if err := os.WriteFile(fs.Arg(1), out, 0644); err != nil {
		fmt.Fprintln(os.Stderr, err)
		os.Exit(2)
	}
	fmt.Printf("MINIMISE: ok %s ops=%d sched=%d\n", rf.MinStats, len(rf.Plan.Ops), len(rf.Sched))
}
