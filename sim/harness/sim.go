package main

import (
	"fmt"
	"io"
	"os"
	"path/filepath"
	"sort"
	"strings"
	"time"

	"github.com/douban/gobeansdb/cmem"
	"github.com/douban/gobeansdb/gobeansdb"
	"github.com/douban/gobeansdb/loghub"
	"github.com/douban/gobeansdb/memcache"
	"github.com/douban/gobeansdb/store"
	simrt "github.com/douban/gobeansdb/zzsimrt"
)

// simHub replaces the error log hub through its public interface field: INFO is dropped,
// WARN/ERROR are counted, FATAL (os.Exit(1) in the shipped hub) ends the simulated process.
type simHub struct {
	warn, errs int64
	last       []string
	fatal      string
	verbose    bool
}

func (h *simHub) Log(name string, level int, file string, line int, msg string) {
	if h.verbose {
		fmt.Fprintf(os.Stderr, "[log %d %s:%d] %s\n", level, file, line, msg)
	}
	switch level {
	case loghub.WARN:
		h.warn++
	case loghub.ERROR:
		h.errs++
		if len(h.last) < 8 {
			h.last = append(h.last, fmt.Sprintf("%s:%d %s", file, line, trunc(msg, 200)))
		}
	case loghub.FATAL:
		h.fatal = fmt.Sprintf("%s:%d %s", file, line, trunc(msg, 300))
		simrt.Exit(simrt.StatusFatal, h.fatal)
	}
}
func (h *simHub) Reopen(path string) error           { return nil }
func (h *simHub) GetLastLog() []byte                 { return nil }
func (h *simHub) DumpBuffer(all bool, out io.Writer) {}

func trunc(s string, n int) string {
	if len(s) > n {
		return s[:n] + "..."
	}
	return s
}

var theHub = &simHub{}

func installHub() {
	loghub.ErrorLogger.Hub = theHub
	loghub.ErrorLogger.SetLevel(loghub.WARN)
	if os.Getenv("VERIF_LOG") != "" {
		theHub.verbose = true
		loghub.ErrorLogger.SetLevel(loghub.DEBUG)
	}
}

// Sim is one store directory living through several process generations.
type Sim struct {
	Cfg     SimCfg
	Dir     string
	Tape    *simrt.Tape
	Gens    int
	Epoch   int64
	elapsed int64 // ns of simulated time in finished generations
	OnFS    func(g *Gen, ev *simrt.FSEvent)

	// accumulators for evidence
	FS             map[string]int64
	Steps          int64
	SimNS          int64
	SchedDecisions int64
	Preemptions    int64
	SchedHash      uint64
	Probes         map[string]int64
	MaxTasks       int
	EvHash         uint64 // canonical event-log hash: every disk event with its bytes, every reply
}

func (s *Sim) logEvent(kind string, a string, n int64, data []byte) {
	h := s.EvHash
	if h == 0 {
		h = 14695981039346656037
	}
	mix := func(b byte) { h ^= uint64(b); h *= 1099511628211 }
	for i := 0; i < len(kind); i++ {
		mix(kind[i])
	}
	mix(0xfe)
	for i := 0; i < len(a); i++ {
		mix(a[i])
	}
	for i := 0; i < 8; i++ {
		mix(byte(n >> (8 * uint(i))))
	}
	for _, b := range data {
		mix(b)
	}
	s.EvHash = h
}

// Gen is one process generation.
type Gen struct {
	S       *Sim
	W       *simrt.World
	H       *store.HStore
	SC      *gobeansdb.StorageClient
	Stats   *memcache.Stats
	OpenErr error
	conns   int
}

func NewSim(cfg SimCfg, dir string, tape *simrt.Tape) *Sim {
	return &Sim{Cfg: cfg, Dir: dir, Tape: tape, Epoch: 1600000000, FS: map[string]int64{}, Probes: map[string]int64{}}
}

func fileClass(path string) string {
	b := filepath.Base(path)
	switch {
	case strings.HasSuffix(b, ".data"):
		return "data"
	case strings.HasSuffix(b, ".idx.s.tmp"):
		return "hint.tmp"
	case strings.HasSuffix(b, ".idx.s"):
		return "hint"
	case strings.HasSuffix(b, ".idx.m.tmp"):
		return "merged.tmp"
	case strings.HasSuffix(b, ".idx.m"):
		return "merged"
	case strings.HasSuffix(b, ".idx.hash.tmp"):
		return "tree.tmp"
	case strings.HasSuffix(b, ".idx.hash"):
		return "tree"
	case b == "collision.yaml":
		return "collision"
	case b == "nextgc.txt":
		return "nextgc"
	}
	return "dir"
}

// Run executes one process generation: open the store, run body as the root task, then the
// process "exits" (every other task dies where it is).
func (s *Sim) Run(body func(g *Gen)) (*Gen, simrt.Result) {
	s.Gens++
	epoch := s.Epoch + s.elapsed/1e9 + 1
	w := simrt.NewWorld(s.Cfg.worldCfg(epoch), s.Tape)
	g := &Gen{S: s, W: w}
	w.FSHandler = func(ev *simrt.FSEvent) {
		s.FS[simrt.FSKindName(ev.Kind)+":"+fileClass(ev.Path)]++
		if fsTrace {
			fmt.Fprintf(os.Stderr, "FSEV gen=%d #%d step=%d %s %s off=%d len=%d task=%d(%s)\n", s.Gens, ev.Seq, ev.Step, simrt.FSKindName(ev.Kind), filepath.Base(ev.Path), ev.Off, len(ev.Data), ev.Task, w.CurName())
		}
		rel, _ := filepath.Rel(s.Dir, ev.Path)
		s.logEvent(simrt.FSKindName(ev.Kind), rel, ev.Off^(ev.Step<<20), ev.Data)
		if s.OnFS != nil {
			s.OnFS(g, ev)
		}
	}
	theHub.fatal = ""
	res := w.Run(func() {
		s.Cfg.apply(s.Dir)
		store.VerifResetGlobals()
		store.SecsBeforeDump = s.Cfg.SecsBeforeDump
		store.VerifSetThresholdListKey(s.Cfg.ListKeyThreshold)
		memcache.InitTokens()
		if hashOverride != nil {
			store.VerifSetKeyHash(hashOverride)
		}
		h, err := store.NewHStore()
		if err != nil {
			g.OpenErr = err
			return
		}
		g.H = h
		g.SC = gobeansdb.VerifNewStorageClient(h)
		g.Stats = memcache.NewStats()
		if s.Cfg.Background {
			simrt.Go("Flusher", h.Flusher)
			d := time.Duration(s.Cfg.DumperSecs) * time.Second
			simrt.Go("HintDumper", func() { h.HintDumper(d) })
		}
		body(g)
	})
	s.elapsed += res.SimNS
	s.Steps += res.Steps
	s.SimNS += res.SimNS
	s.SchedDecisions += w.SchedDecisions
	s.Preemptions += w.Preemptions
	s.SchedHash = s.SchedHash*1099511628211 ^ w.SchedHash()
	for k, v := range w.Probes {
		s.Probes[k] += v
	}
	if n := w.NumTasks(); n > s.MaxTasks {
		s.MaxTasks = n
	}
	return g, res
}

var hashOverride func(key []byte) uint64
var fsTrace = os.Getenv("VERIF_FSTRACE") != ""

// NewConn opens a simulated connection served by the real ServerConn.Serve loop over the real
// storage client.
func (g *Gen) NewConn() *PClient {
	g.conns++
	name := fmt.Sprintf("c%d", g.conns)
	sc, ce := simrt.Pipe(name)
	srv := memcache.VerifNewServerConn(sc)
	client := gobeansdb.VerifNewStorageClient(g.H)
	stats := g.Stats
	simrt.Go("Serve:"+name, func() { srv.Serve(client, stats) })
	return &PClient{g: g, end: ce, conn: sc, name: name}
}

// Counters returns the four published buffer counters (count,size) x4 and the free tokens.
type Counters struct {
	Get, Set, Flush, Alloc [2]int64
	TokensFree, TokensCap int
}

func readCounters() Counters {
	var c Counters
	d := &cmem.DBRL
	c.Get = [2]int64{d.GetData.Count, d.GetData.Size}
	c.Set = [2]int64{d.SetData.Count, d.SetData.Size}
	c.Flush = [2]int64{d.FlushData.Count, d.FlushData.Size}
	c.Alloc = [2]int64{d.AllocRL.Count, d.AllocRL.Size}
	if memcache.RL != nil {
		c.TokensFree = len(memcache.RL.Chan)
		c.TokensCap = cap(memcache.RL.Chan)
	}
	return c
}

func (c Counters) String() string {
	return fmt.Sprintf("get=%v set=%v flush=%v alloc=%v tokens=%d/%d", c.Get, c.Set, c.Flush, c.Alloc, c.TokensFree, c.TokensCap)
}

// bucketDir returns the directory of a bucket.
func (s *Sim) bucketDir(b int) string {
	switch s.Cfg.NumBucket {
	case 16:
		return filepath.Join(s.Dir, fmt.Sprintf("%x", b))
	case 256:
		return filepath.Join(s.Dir, fmt.Sprintf("%x", b/16), fmt.Sprintf("%x", b%16))
	}
	return s.Dir
}

// listFiles returns the regular files below dir (relative names, sorted) with sizes.
func listFiles(dir string) map[string]int64 {
	out := map[string]int64{}
	filepath.Walk(dir, func(p string, info os.FileInfo, err error) error {
		if err == nil && info.Mode().IsRegular() {
			rel, _ := filepath.Rel(dir, p)
			out[rel] = info.Size()
		}
		return nil
	})
	return out
}

func sortedKeys(m map[string]int64) []string {
	ks := make([]string, 0, len(m))
	for k := range m {
		ks = append(ks, k)
	}
	sort.Strings(ks)
	return ks
}

// copyTree copies a directory tree (snapshot for crash recovery checks).
func copyTree(src, dst string) error {
	return filepath.Walk(src, func(p string, info os.FileInfo, err error) error {
		if err != nil {
			return nil
		}
		rel, _ := filepath.Rel(src, p)
		t := filepath.Join(dst, rel)
		if info.IsDir() {
			return os.MkdirAll(t, 0755)
		}
		if !info.Mode().IsRegular() {
			return nil
		}
		b, err := os.ReadFile(p)
		if err != nil {
			return nil
		}
		return os.WriteFile(t, b, 0644)
	})
}
