package main

import (
	"fmt"
	"os"
	"path/filepath"
	"sort"
	"strings"

	simrt "github.com/douban/gobeansdb/zzsimrt"
)

type Violation struct {
	Prop  string
	Rule  string
	Sub   string `json:",omitempty"` // stable discriminator inside a rule (part of the violation class)
	Msg   string
	OpID  int
	Gen   int
	Trace []string `json:",omitempty"`
}

func (v *Violation) Class() string { return v.Prop + "/" + v.Rule + "/" + v.Sub }

// Outcome of one simulated world.
type Outcome struct {
	Seed         uint64
	Prop         string
	Violation    *Violation `json:",omitempty"`
	Inconclusive string     `json:",omitempty"`
	Nontrivial   bool
	Sig          string // distinctness signature
	EvHash       string `json:",omitempty"` // canonical event-log hash (determinism self-test)
	Gens         int
	OpsRun       int
	Steps        int64
	SimNS        int64
	SchedDecisions int64
	Preemptions  int64
	MaxTasks     int
	FS           map[string]int64 `json:",omitempty"`
	Faults       map[string]int64 `json:",omitempty"`
	Probes       map[string]int64 `json:",omitempty"`
	Cases        int64            `json:",omitempty"` // fault-enumeration engines: cases evaluated
	DistinctCases int64           `json:",omitempty"`
	CaseClasses  []string         `json:",omitempty"` // distinct case classes of this world (unioned by the driver)
	Known        []string         `json:",omitempty"`
	Sample       interface{}      `json:",omitempty"`
	Tapes        [simrt.NumStreams][]int32 `json:"-"`
	WallMS       int64
}

func (o *Outcome) absorb(s *Sim) {
	o.Gens = s.Gens
	o.EvHash = fmt.Sprintf("%016x-%016x", s.EvHash, s.SchedHash)
	o.Steps += s.Steps
	o.SimNS += s.SimNS
	o.SchedDecisions += s.SchedDecisions
	o.Preemptions += s.Preemptions
	if s.MaxTasks > o.MaxTasks {
		o.MaxTasks = s.MaxTasks
	}
	if o.FS == nil {
		o.FS = map[string]int64{}
	}
	for k, v := range s.FS {
		o.FS[k] += v
	}
	if o.Probes == nil {
		o.Probes = map[string]int64{}
	}
	for k, v := range s.Probes {
		o.Probes[k] += v
	}
}

func (o *Outcome) probe(name string) {
	if o.Probes == nil {
		o.Probes = map[string]int64{}
	}
	o.Probes[name]++
}

func (o *Outcome) fault(name string) {
	if o.Faults == nil {
		o.Faults = map[string]int64{}
	}
	o.Faults[name]++
}

var worldDirBase = func() string {
	if d := os.Getenv("VERIF_WORLD_DIR"); d != "" {
		return d
	}
	if st, err := os.Stat("/dev/shm"); err == nil && st.IsDir() {
		return "/dev/shm"
	}
	return os.TempDir()
}()

var worldSeq int

func mkWorldDir() string {
	worldSeq++
	d := filepath.Join(worldDirBase, fmt.Sprintf("verifw-%d-%d", os.Getpid(), worldSeq))
	os.RemoveAll(d)
	if err := os.MkdirAll(d, 0755); err != nil {
		panic(err)
	}
	return d
}

func fnvStr(parts ...string) string {
	h := uint64(14695981039346656037)
	for _, p := range parts {
		for i := 0; i < len(p); i++ {
			h ^= uint64(p[i])
			h *= 1099511628211
		}
		h ^= 0xff
		h *= 1099511628211
	}
	return fmt.Sprintf("%016x", h)
}

func cfgClass(c *SimCfg) string {
	return fmt.Sprintf("b%d/s%d/h%d/v%v/f%d/sc%d/io%d/bm%d/c%d/p%d/y%s/bg%v", c.NumBucket, len(c.Served), c.TreeHeight, c.CheckVHash,
		c.DataFileMax, c.SplitCap, c.BufIOCap, c.BodyMax, c.BodyInC, c.Policy, yieldClass(c), c.Background)
}

func opKinds(ops []Op) string {
	var b strings.Builder
	for _, o := range ops {
		b.WriteString(o.Kind[:2])
	}
	return b.String()
}

func sortedProbeNames(m map[string]int64) []string {
	var ks []string
	for k := range m {
		ks = append(ks, k)
	}
	sort.Strings(ks)
	return ks
}

func yieldClass(c *SimCfg) string {
	switch {
	case c.StmtYield:
		return "stmt"
	case c.FuncYield:
		return "true"
	}
	return "false"
}
