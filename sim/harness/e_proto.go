package main

import (
	"bufio"
	"bytes"
	"fmt"
	"os"
	"strconv"
	"strings"
	"time"

	"github.com/douban/gobeansdb/cmem"
	"github.com/douban/gobeansdb/config"
	"github.com/douban/gobeansdb/memcache"
	simrt "github.com/douban/gobeansdb/zzsimrt"
)

// Protocol engine (C11, C12). Byte streams built from a grammar of command units (well-formed
// and mutated) are delivered to the real server loop by the network simulator in drawn
// fragments with drawn delays, optionally cut at an arbitrary byte (close or half-open
// silence), on 1..8 connections served concurrently. An independent reference parser predicts
// the reply sequence (exactly for data commands, by class otherwise).

// expectation classes
const (
	expExact  = iota // exact status line (and items)
	expError         // ERROR / CLIENT_ERROR / SERVER_ERROR line
	expAny           // any single syntactically valid reply
	expNone          // no reply (noreply)
	expClose         // connection is closed by the server, no reply
	expErrorOrClose
	expErrorMayClose // error reply; afterwards the server either closes or has swallowed the announced body
	expErrorOrCloseHere // an error reply (and the connection goes on), or an orderly close without reply
	expAnyOrClose       // semantics unspecified (treated as unsupported): any single reply - none for noreply - and the connection goes on, or an orderly close
)

type expect struct {
	Raw    []byte // bytes of the complete command (round-trip check)
	Kind   int
	Status string
	Items  map[string]expItem // exact retrieval: key -> value
	Msg    string
	Desc   string
	Num    *int64
	Quiet  bool // expAnyOrClose: the command carried noreply
}

type expItem struct {
	Val  []byte
	Flag uint64
}

// refConn is the reference parser + map for one connection's key space.
type refConn struct {
	cfg   *SimCfg
	data  map[string]*refVal
	exps  []expect
	closed bool // an orderly close is expected after the last expectation
	incomplete bool // the stream ends inside a command (line or body): the connection is not in sync
}

type refVal struct {
	val  []byte
	flag uint32
	ver  int32
	live bool
}

func validKey(k string) bool {
	if len(k) == 0 || len(k) > 250 {
		return false
	}
	if k[0] <= ' ' || k[0] == '?' || k[0] == '@' {
		return false
	}
	for _, r := range k {
		if r < 0x20 || r == 0x7f || (r >= 0x80 && r < 0xa0) || r == 0x85 || r == 0xa0 || r == 0x1680 || (r >= 0x2000 && r <= 0x200a) || r == 0x2028 || r == 0x2029 || r == 0x202f || r == 0x205f || r == 0x3000 {
			return false
		}
	}
	return true
}

func fields(s string) []string {
	return strings.FieldsFunc(s, func(r rune) bool { return r == ' ' })
}

// feed parses the complete byte stream of a connection and fills the expectations.
func (rc *refConn) feed(stream []byte, served func(key string) bool) {
	pos := 0
	lineStart := 0
	add := func(e expect) {
		if e.Kind == expExact || e.Kind == expNone {
			e.Raw = stream[lineStart:pos]
		}
		rc.exps = append(rc.exps, e)
	}
	for pos < len(stream) && !rc.closed {
		lineStart = pos
		i := bytes.IndexByte(stream[pos:], '\n')
		if i < 0 {
			rc.incomplete = true
			return // incomplete line: nothing to expect
		}
		line := string(stream[pos : pos+i+1])
		pos += i + 1
		if !strings.HasSuffix(line, "\r\n") {
			add(expect{Kind: expError, Desc: "line without CRLF"})
			continue
		}
		parts := fields(line[:len(line)-2])
		if len(parts) == 0 {
			add(expect{Kind: expError, Desc: "empty line"})
			continue
		}
		desc := trunc(strings.Join(parts, " "), 60)
		switch parts[0] {
		case "get", "gets":
			if len(parts) < 2 {
				add(expect{Kind: expError, Desc: desc})
				continue
			}
			tooLong := false
			for _, k := range parts[1:] {
				if len(k) > 250 {
					tooLong = true
				}
			}
			if tooLong {
				add(expect{Kind: expError, Desc: desc})
				continue
			}
			special := false
			for _, k := range parts[1:] {
				if k[0] == '@' || k[0] == '?' {
					special = true
				}
			}
			if special {
				add(expect{Kind: expAny, Desc: desc})
				continue
			}
			items := map[string]expItem{}
			for _, k := range parts[1:] {
				if v, ok := rc.data[k]; ok && v.live && served(k) {
					items[k] = expItem{v.val, uint64(v.flag)}
				}
			}
			add(expect{Kind: expExact, Status: "END", Items: items, Desc: desc})
		case "set", "add", "replace", "cas", "append", "prepend":
			if len(parts) < 5 || len(parts) > 7 {
				add(expect{Kind: expError, Desc: desc})
				continue
			}
			flag, e1 := strconv.Atoi(parts[2])
			exp, e2 := strconv.Atoi(parts[3])
			length, e3 := strconv.Atoi(parts[4])
			if e1 != nil || e2 != nil || e3 != nil {
				add(expect{Kind: expError, Desc: desc})
				continue
			}
			if uint32(length) > uint32(rc.cfg.BodyMax) {
				if length > 0 && length < 1<<20 && pos+length+2 <= len(stream) && bytes.Equal(stream[pos+length:pos+length+2], []byte("\r\n")) {
					// a refused value whose body follows: the body is data, not commands. The server
					// must either swallow it or close the connection after the error reply.
					pos += length + 2
					add(expect{Kind: expErrorMayClose, Desc: desc + " (oversize, body follows)"})
					continue
				}
				add(expect{Kind: expErrorMayClose, Desc: desc + " (oversize)"})
				continue
			}
			noreply := false
			if parts[0] == "cas" {
				if len(parts) < 6 || (len(parts) > 6 && parts[6] != "noreply") {
					add(expect{Kind: expError, Desc: desc})
					continue
				}
				noreply = len(parts) > 6
			} else {
				if len(parts) > 5 && parts[5] != "noreply" {
					add(expect{Kind: expError, Desc: desc})
					continue
				}
				noreply = len(parts) > 5
			}
			if length < 0 || int64(length) > rc.cfg.BodyMax {
				// (a length >= 2^32 passes the 32-bit check and makes the server wait for that many
				// bytes: not generated)
				add(expect{Kind: expErrorOrClose, Desc: desc})
				rc.closed = true
				continue
			}
			if pos+length+2 > len(stream) {
				rc.incomplete = true
				return // body incomplete
			}
			body := stream[pos : pos+length]
			term := stream[pos+length : pos+length+2]
			pos += length + 2
			if term[0] != '\r' || term[1] != '\n' {
				add(expect{Kind: expError, Desc: desc + " (bad terminator)"})
				continue
			}
			key := parts[1]
			switch parts[0] {
			case "append":
				add(expect{Kind: expError, Desc: desc})
				continue
			case "prepend":
				add(expect{Kind: expClose, Desc: desc})
				rc.closed = true
				continue
			}
			e := expect{Kind: expExact, Status: "STORED", Desc: desc}
			if !validKey(key) {
				e.Status = "NOT_STORED"
			} else if exp > 0x7fffffff || exp < -0x80000000 {
				// a revision outside the int32 range of the record format: what it means is
				// unspecified (only generated for a dedicated key that is never read)
				e = expect{Kind: expAnyOrClose, Desc: desc + " (revision outside int32)", Quiet: noreply}
				delete(rc.data, key)
				add(e)
				continue
			} else if exp < 0 {
				e = expect{Kind: expAny, Desc: desc} // negative revision: delete-with-body path, unspecified
				delete(rc.data, key)
			} else if served(key) {
				v := rc.data[key]
				if v == nil {
					v = &refVal{}
					rc.data[key] = v
				}
				accept := true
				if exp > 0 && int32(exp) <= abs32(v.ver) {
					accept = false
				}
				if rc.cfg.CheckVHash && v.live && refVHash(v.val) == refVHash(body) {
					accept = false
					if exp > 0 && int32(exp) > abs32(v.ver) {
						v.ver = int32(exp)
					}
				}
				if accept {
					if exp > 0 {
						v.ver = int32(exp)
					} else {
						v.ver = abs32(v.ver) + 1
					}
					v.val = append([]byte(nil), body...)
					v.flag = uint32(flag)
					v.live = true
				}
			}
			if noreply {
				e = expect{Kind: expNone, Desc: desc}
			}
			add(e)
		case "delete":
			if len(parts) < 2 || len(parts) > 4 {
				add(expect{Kind: expError, Desc: desc})
				continue
			}
			noreply := len(parts) > 2 && parts[len(parts)-1] == "noreply"
			key := parts[1]
			e := expect{Kind: expExact, Status: "NOT_FOUND", Desc: desc}
			if validKey(key) {
				if !served(key) {
					e = expect{Kind: expAny, Desc: desc}
				} else if v, ok := rc.data[key]; ok && v.live {
					v.live = false
					v.ver = -(v.ver + 1)
					e.Status = "DELETED"
				}
			}
			if noreply {
				e = expect{Kind: expNone, Desc: desc}
			}
			add(e)
		case "incr", "decr":
			if len(parts) < 3 || len(parts) > 4 {
				add(expect{Kind: expError, Desc: desc})
				continue
			}
			noreply := len(parts) > 3 && parts[3] == "noreply"
			if parts[0] == "decr" {
				add(expect{Kind: expClose, Desc: desc})
				rc.closed = true
				continue
			}
			delta, err := strconv.Atoi(parts[2])
			if err != nil {
				e := expect{Kind: expError, Desc: desc}
				if noreply {
					e = expect{Kind: expNone, Desc: desc}
				}
				add(e)
				continue
			}
			key := parts[1]
			var n int64
			if validKey(key) && served(key) {
				v := rc.data[key]
				switch {
				case v == nil || !v.live:
					if v == nil {
						v = &refVal{}
						rc.data[key] = v
					}
					n = int64(delta)
					v.ver = 1 // (or |old|+1: versions are not observed by this engine)
					v.val = []byte(strconv.FormatInt(n, 10))
					v.flag = flagIncr
					v.live = true
				default:
					old, e := strconv.Atoi(string(v.val))
					if v.flag != flagIncr || len(v.val) > 22 || e != nil {
						n = 0
					} else {
						n = int64(old) + int64(delta)
						v.val = []byte(strconv.FormatInt(n, 10))
						v.ver++
					}
				}
			}
			e := expect{Kind: expExact, Status: strconv.FormatInt(n, 10), Desc: desc}
			if noreply {
				e = expect{Kind: expNone, Desc: desc}
			}
			add(e)
		case "stats":
			add(expect{Kind: expExact, Status: "END", Desc: desc, Msg: "stats"})
		case "version":
			add(expect{Kind: expExact, Status: "VERSION", Desc: desc})
		case "verbosity", "flush_all":
			add(expect{Kind: expExact, Status: "OK", Desc: desc})
		case "quit":
			add(expect{Kind: expClose, Desc: desc})
			rc.closed = true
		default:
			// unknown / unsupported verb: the statement allows an error reply or an orderly close
			add(expect{Kind: expErrorOrCloseHere, Desc: desc})
		}
	}
}

// ---------------------------------------------------------------------------------------
// stream generation

type protoConnPlan struct {
	Stream  []byte
	Frag    []int
	DelayMS []int64
	Cut     int  // deliver only Stream[:Cut] (len = everything)
	Close   bool // close the sending side after delivery (else stay silent / half-open)
	Stall   int  // C12: index of the fragment before which the client stalls longer than timeout_ms (-1 none)
}

func protoKey(r *Rng, ci int, pool int) string {
	if ci == 0 && r.Bool(1, 10) {
		// keys that look like protocol words (only on one connection: the reference keeps one
		// key space per connection)
		// ... and keys with bytes that are white space to Unicode but not to the protocol (the only
		// separator is the ASCII blank): NBSP, ideographic space, NEL, line separator
		return []string{"noreply", "noreply", "0", "1", "-1", "get", "END", "STORED", "cas",
			"a\u00a0b", "\u3000k", "k\u0085", "x\u2028y\u00a0"}[r.Intn(13)]
	}
	return fmt.Sprintf("c%dk%d", ci, r.Intn(pool))
}

func genProtoValue(r *Rng, max int) []byte {
	n := r.Pick(0, 1, 5, 10, 30, 200, 230, 300, 1000, 5000, 10241, max)
	if n > max {
		n = max
	}
	if max > 12000 && r.Bool(1, 8) {
		// a compressible head (the server probes the first 10 KiB) and an incompressible tail
		n = r.Pick(12000, 36000, 50000, 60000, 100000) // (above ~34 KB the value as a whole compresses to more than 70 %)
		if n > max {
			n = max
		}
		b := make([]byte, n)
		for i := range b {
			if i < 10240 {
				b[i] = "ab"[i%2]
			} else {
				b[i] = byte(r.U64())
			}
		}
		return b
	}
	b := make([]byte, n)
	alphabet := []byte("abc \r\n\x00\xffEND\r\nSTORED get set 0123")
	switch r.Intn(3) {
	case 0:
		for i := range b {
			b[i] = byte(r.U64())
		}
	case 1:
		// highly compressible: the server compresses records above 256 bytes
		phrase := []string{"a", "ab", "hello world ", "0123456789"}[r.Intn(4)]
		for i := range b {
			b[i] = phrase[i%len(phrase)]
		}
	default:
		for i := range b {
			b[i] = alphabet[r.Intn(len(alphabet))]
		}
	}
	return b
}

func genProtoStream(r *Rng, cfg *SimCfg, ci int, prop string) []byte {
	var b bytes.Buffer
	n := r.Range(1, 14)
	pool := r.Range(1, 4)
	max := int(cfg.BodyMax)
	wellformed := func() {
		k := protoKey(r, ci, pool)
		if r.Bool(1, 25) {
			// a revision that does not fit the record's int32 version field (e.g. a client sending an
			// unsigned -1), on a key of its own that is never read back
			v := genProtoValue(r, max)
			// (not -2147483649: it truncates to 2^31-1, and the next auto-increment overflows: DESIGN section 11.3)
			rev := []int64{2147483648, 4294967295, 4294967295, 4294967297, 1 << 40, -4294967290, -4294967295, -4294967296}[r.Intn(8)]
			b.Write(cmdSet("set", fmt.Sprintf("c%dwrap%d", ci, r.Intn(2)), uint64(r.Pick(0, 0x10)), rev, v, r.Bool(1, 8)))
			return
		}
		if r.Bool(1, 14) {
			// meta queries of a key that was just written / just deleted (a tombstone is a record too)
			if r.Bool(1, 2) {
				b.Write(cmdSet("set", k, 0, 0, genProtoValue(r, max), false))
			}
			if r.Bool(2, 3) {
				b.WriteString("delete " + k + "\r\n")
			}
			b.WriteString("get ?" + k + "\r\n")
			if r.Bool(1, 2) {
				b.WriteString("get ??" + k + "\r\n")
			}
			return
		}
		switch r.Weighted([]int{30, 25, 8, 8, 5, 3, 3, 2, 2, 4, 3, 2}) {
		case 0:
			v := genProtoValue(r, max)
			verb := []string{"set", "set", "add", "replace"}[r.Intn(4)]
			b.Write(cmdSet(verb, k, uint64(r.Pick(0, 0, 1, 0x10, 0x204, 12345)), int64(r.Pick(0, 0, 0, 1, 2, 5)), v, r.Bool(1, 8)))
		case 1:
			keys := []string{k}
			for j := r.Intn(4); j > 0; j-- {
				keys = append(keys, protoKey(r, ci, pool))
			}
			if r.Bool(1, 8) {
				// a long, well-formed multi-get (client libraries batch hundreds of keys): the
				// command line exceeds the 4 KB reader buffer
				for j := r.Pick(450, 700, 1500); j > 0; j-- {
					keys = append(keys, fmt.Sprintf("c%dk%d", ci, r.Intn(pool+3)))
				}
			} else if r.Bool(1, 8) {
				for j := r.Range(17, 30); j > 0; j-- {
					keys = append(keys, fmt.Sprintf("c%dk%d%s", ci, r.Intn(pool), strings.Repeat("z", 240)))
				}
			}
			verb := "get"
			if r.Bool(1, 5) {
				verb = "gets"
			}
			b.WriteString(verb + " " + strings.Join(keys, " ") + "\r\n")
		case 2:
			b.WriteString("delete " + k)
			if r.Bool(1, 6) {
				b.WriteString(" 0")
			}
			if r.Bool(1, 6) {
				b.WriteString(" noreply")
			}
			b.WriteString("\r\n")
		case 3:
			b.WriteString(fmt.Sprintf("incr %s %d", k, r.Pick(1, 2, -1, 100)))
			if r.Bool(1, 6) {
				b.WriteString(" noreply")
			}
			b.WriteString("\r\n")
		case 4:
			// special keys of every length
			var key string
			hex := "0123456789abcdef"
			switch r.Intn(6) {
			case 0:
				key = "@"
				for j := r.Range(0, 20); j > 0; j-- {
					key += string(hex[r.Intn(16)])
				}
			case 1:
				key = "@"
				for j := r.Range(1, 20); j > 0; j-- {
					key += string("0123456789abcdefgxyz-"[r.Intn(21)])
				}
			case 2:
				key = "@@"
				for j := r.Pick(0, 1, 15, 16, 16, 17, 20); j > 0; j-- {
					key += string(hex[r.Intn(16)])
				}
			case 3:
				key = "@@"
				for j := r.Pick(16, 16, 3); j > 0; j-- {
					key += string("0123456789abcdefgxyz"[r.Intn(20)])
				}
			case 4:
				key = "?" + k
				if r.Bool(1, 3) {
					key = "??" + k
				}
				if r.Bool(1, 6) {
					key = "?"
				}
			case 5:
				key = "@collision_" + []string{"all_", "1", ""}[r.Intn(3)]
			}
			b.WriteString("get " + key + "\r\n")
		case 5:
			b.WriteString("stats\r\n")
		case 6:
			b.WriteString("version\r\n")
		case 7:
			b.WriteString("verbosity 1\r\n")
		case 8:
			b.WriteString("flush_all\r\n")
		case 9:
			v := genProtoValue(r, 300)
			b.WriteString(fmt.Sprintf("cas %s %d 0 %d 77", k, r.Intn(3), len(v)))
			if r.Bool(1, 6) {
				b.WriteString(" noreply")
			}
			b.WriteString("\r\n")
			b.Write(v)
			b.WriteString("\r\n")
		case 10:
			v := genProtoValue(r, 300)
			b.Write(cmdSet("append", k, 0, 0, v, false))
		case 11:
			b.WriteString([]string{"foo\r\n", "GET x\r\n", "touch k 1\r\n", "gc @ 0 1\r\n"}[r.Intn(4)])
		}
	}
	malformed := func() bool { // returns true if the stream must end here
		k := protoKey(r, ci, pool)
		switch r.Intn(16) {
		case 0:
			b.WriteString("\r\n")
		case 1:
			b.WriteString("get\r\n")
		case 2:
			b.WriteString("set " + k + " 0 0\r\n")
		case 3:
			b.WriteString("set " + k + " x 0 1\r\n")
		case 4:
			b.WriteString("set " + k + " 0 0 -1\r\n")
		case 5:
			b.WriteString("set " + k + " 0 0 99999999999\r\n")
			return true
		case 6:
			b.WriteString("set " + k + " 0 0 3 norepl\r\n")
		case 7:
			b.WriteString("get " + strings.Repeat("k", r.Pick(251, 300, 5000)) + "\r\n")
		case 8:
			b.WriteString("set " + strings.Repeat("k", 251) + " 0 0 1\r\nx\r\n")
		case 9:
			b.WriteString("incr " + k + " abc\r\n")
		case 10:
			b.WriteString("delete\r\n")
		case 11:
			b.WriteString("get " + k + "\n") // LF only
		case 12:
			// body shorter than announced: the stream is out of sync afterwards
			b.WriteString("set " + k + " 0 0 10\r\nabc\r\n")
			return true
		case 13:
			b.WriteString(strings.Repeat("x", r.Pick(100, 5000, 70000)) + "\r\n")
		case 14, 15:
			// a value just above body_max, complete with its body; the body looks like commands
			n := max + r.Range(1, 300)
			body := make([]byte, 0, n)
			inj := fmt.Sprintf("delete %s\r\nset %s 0 0 1\r\nX\r\n", protoKey(r, ci, pool), protoKey(r, ci, pool))
			for len(body) < n {
				body = append(body, inj...)
			}
			body = body[:n]
			b.WriteString(fmt.Sprintf("set %s 0 0 %d\r\n", k, n))
			b.Write(body)
			b.WriteString("\r\n")
		}
		return false
	}
	for i := 0; i < n; i++ {
		if r.Bool(1, 5) {
			if malformed() {
				break
			}
		} else {
			wellformed()
		}
	}
	switch r.Intn(8) {
	case 0:
		b.WriteString("quit\r\n")
	case 1:
		b.WriteString("decr " + protoKey(r, ci, pool) + " 1\r\n")
	case 2:
		b.Write(cmdSet("prepend", protoKey(r, ci, pool), 0, 0, []byte("xx"), false))
	}
	return b.Bytes()
}

func genProtoPlan(prop string, seed uint64, tier string) *Plan {
	r := NewRng(seed)
	p := &Plan{Prop: prop, Seed: seed, Extra: map[string]int64{}}
	p.Cfg = genCfg(r, true)
	c := &p.Cfg
	c.NumBucket = r.Pick(1, 16)
	if c.NumBucket == 1 {
		c.Served = []int{0}
	} else {
		c.Served = nil
		for b := 0; b < 16; b++ {
			if r.Bool(3, 4) {
				c.Served = append(c.Served, b)
			}
		}
		if len(c.Served) == 0 {
			c.Served = []int{3}
		}
	}
	c.TreeHeight = r.Pick(2, 3)
	c.BodyMax = r.Pick64(2048, 16384, 16384, 65536)
	c.BodyInC = r.Pick64(0, 0, 64, 4096)
	c.Background = r.Bool(1, 2)
	c.MaxReq = r.Pick(1, 2, 16, 16, 16, 16)
	c.FlushMax = 100 << 20
	c.BodyBig = 1 << 20
	if prop == "C12" && r.Bool(1, 3) {
		c.BodyBig = 256 // OOM refusal reachable
		c.FlushMax = r.Pick64(0, 512)
	}
	c.CheckVHash = r.Bool(1, 3)
	c.normalize()
	nConn := r.Range(1, 3)
	if prop == "C12" {
		nConn = r.Range(1, 8)
		if r.Bool(1, 4) {
			c.TimeoutMS = 3000
			p.Extra["slowclient"] = 1
		}
	}
	for ci := 0; ci < nConn; ci++ {
		st := genProtoStream(r, c, ci, prop)
		op := Op{ID: ci + 1, Kind: "conn", Raw: st, At: len(st)}
		// fragmentation
		rem := len(st)
		for rem > 0 {
			n := r.Pick(1, 2, 7, 30, 100, 1000, 4096, rem)
			if n > rem {
				n = rem
			}
			op.Frag = append(op.Frag, n)
			rem -= n
		}
		op.DelayMS = r.Pick64(0, 0, 1, 10, 200)
		if r.Bool(1, 4) && len(st) > 0 {
			op.At = r.Intn(len(st) + 1) // cut
		}
		op.Pretend = r.Bool(2, 3) // close after delivery (else half-open silence)
		if prop == "C12" {
			// C12 speaks about quiescence (all connections idle or dropped): a cut stream ends with
			// a connection drop; half-open silence inside a command belongs to C11
			op.Pretend = true
		}
		op.GCDays = -1
		if p.Extra["slowclient"] == 1 && r.Bool(1, 2) && len(op.Frag) > 1 {
			op.GCDays = r.Intn(len(op.Frag)) // stall before this fragment
		}
		p.Ops = append(p.Ops, op)
	}
	return p
}

// ---------------------------------------------------------------------------------------

type protoExec struct {
	plan *Plan
	out  *Outcome
	viol *Violation
	minCounters Counters
}

func (x *protoExec) fail(rule, sub, msg string) {
	if x.viol == nil {
		x.viol = &Violation{Prop: x.plan.Prop, Rule: rule, Sub: sub, Msg: msg}
	}
}

func countersNegative(c Counters) string {
	for name, v := range map[string][2]int64{"GetData": c.Get, "SetData": c.Set, "FlushData": c.Flush, "AllocRL": c.Alloc} {
		if v[0] < 0 || v[1] < 0 {
			return fmt.Sprintf("%s count=%d size=%d", name, v[0], v[1])
		}
	}
	return ""
}

func runProto(plan *Plan, tape *simrt.Tape) *Outcome {
	out := &Outcome{Seed: plan.Seed, Prop: plan.Prop}
	dir := mkWorldDir()
	defer os.RemoveAll(dir)
	sim := NewSim(plan.Cfg, dir, tape)
	x := &protoExec{plan: plan, out: out}
	cfg := &plan.Cfg
	served := func(key string) bool { return cfg.served(bucketOf(cfg, []byte(key))) }
	type connState struct {
		op      Op
		rc      *refConn
		cl      *PClient
		replies []Reply
		done    bool
		sent    []byte
		closedByServer bool
	}
	var conns []*connState
	for _, op := range plan.Ops {
		cs := &connState{op: op}
		cut := op.At
		if cut > len(op.Raw) {
			cut = len(op.Raw)
		}
		cs.sent = op.Raw[:cut]
		cs.rc = &refConn{cfg: cfg, data: map[string]*refVal{}}
		cs.rc.feed(cs.sent, served)
		conns = append(conns, cs)
	}
	slow := false
	finished := false
	starvedNow := false
	budgetOut := false
	// a client that goes silent inside a command body keeps the request token it was given
	// with the command line; when all max_req tokens are held that way every other connection
	// waits for a token forever
	computeStarved := func() bool {
		c := readCounters()
		if c.TokensFree != 0 {
			return false
		}
		holders := 0
		for _, cs := range conns {
			if cs.rc.incomplete && !cs.op.Pretend {
				holders++
			}
		}
		return holders > 0 && holders >= c.TokensCap
	}
	_, res := sim.Run(func(g *Gen) {
		w := g.W
		remaining := len(conns)
		for i, cs := range conns {
			cs := cs
			cs.cl = g.NewConn()
			w.GoHarness(fmt.Sprintf("client%d", i), func() {
				defer func() { remaining-- }()
				b := cs.sent
				fi := 0
				for len(b) > 0 {
					n := len(b)
					if fi < len(cs.op.Frag) {
						n = cs.op.Frag[fi]
					}
					if n > len(b) {
						n = len(b)
					}
					if cs.op.GCDays >= 0 && fi == cs.op.GCDays {
						// slow client: stall longer than timeout_ms
						slow = true
						x.out.fault("slow-client-stall")
						simrt.Sleep(time.Duration(plan.Cfg.TimeoutMS+1500) * time.Millisecond)
					}
					cs.cl.end.Deliver(b[:n])
					b = b[n:]
					fi++
					if cs.op.DelayMS > 0 {
						simrt.Sleep(time.Duration(cs.op.DelayMS) * time.Millisecond)
					} else {
						w.HarnessYield()
					}
					if neg := countersNegative(readCounters()); neg != "" && plan.Prop == "C12" {
						x.fail("R-counter-negative", "", "a published buffer counter went negative while streams were being served: "+neg)
						return
					}
				}
				if cs.op.Pretend {
					cs.cl.end.CloseWrite()
					x.out.fault("client-close")
				} else if len(cs.sent) < len(cs.op.Raw) {
					x.out.fault("half-open-silence")
				}
				if len(cs.sent) < len(cs.op.Raw) {
					x.out.fault("stream-cut")
				}
				// collect replies until the server waits for input or closes
				for {
					r := cs.cl.ReadReply()
					if r.Budget {
						budgetOut = true
						break
					}
					if r.NoReply || r.Closed {
						cs.closedByServer = r.Closed
						if r.Malformed != "" {
							cs.replies = append(cs.replies, r)
						}
						break
					}
					cs.replies = append(cs.replies, r)
					if r.Malformed != "" {
						break
					}
				}
				cs.done = true
			})
		}
		ok := w.WaitCondSteps("conns", plan.Cfg.MaxSteps, func() bool { return remaining == 0 })
		starvedNow = computeStarved()
		if !ok || x.viol != nil || budgetOut {
			// (budgetOut: a reply wait ran out of scheduler steps while the server was still busy -
			// the reply sequences are incomplete, nothing may be concluded from them, the
			// sentinel included)
			return
		}
		// bounded liveness: a fresh connection is served
		probe := g.NewConn()
		r := probe.Do([]byte("version\r\n"))
		if r.Status != "VERSION" {
			if plan.Extra["slowclient"] == 1 && (r.NoReply || r.Status == "PROCESS_TIMEOUT" || r.Status == "RECV_TIMEOUT") {
				// timeout_ms is within reach in slow-client worlds, and simulated time advances with
				// every scheduler step: any command, the probe included, may run into the process
				// timeout, which drops the reply (DESIGN section 11.3). Not a verdict about liveness.
				x.out.probe("liveness-probe-hit-process-timeout")
			} else {
				x.fail("R-proto-other-conn", "", "a fresh connection did not get an answer to 'version' after the streams: "+r.String())
				return
			}
		}
		// a still open, in-sync connection answers a sentinel
		for i, cs := range conns {
			if !cs.closedByServer && !cs.op.Pretend && !cs.rc.incomplete && !cs.rc.closed && allRepliesOK(cs.replies) {
				r := cs.cl.Do([]byte("version\r\n"))
				if r.Status != "VERSION" && plan.Extra["slowclient"] == 1 && (r.NoReply || r.Status == "PROCESS_TIMEOUT" || r.Status == "RECV_TIMEOUT") {
					x.out.probe("sentinel-hit-process-timeout")
				} else if r.Status != "VERSION" {
					if os.Getenv("VERIF_DEBUG") != "" {
						for j, e := range cs.rc.exps {
							fmt.Fprintf(os.Stderr, "EXP conn%d #%d kind=%d status=%q desc=%q\n", i, j, e.Kind, e.Status, trunc(e.Desc, 80))
						}
						for j, rr := range cs.replies {
							fmt.Fprintf(os.Stderr, "GOT conn%d #%d %s\n", i, j, trunc(rr.String(), 120))
						}
					}
					x.fail("R-proto-wedged", "", fmt.Sprintf("connection %d was left in sync but does not answer 'version': %s", i, r))
					return
				}
				x.out.probe("sentinel-answered")
			}
			cs.cl.end.CloseWrite()
		}
		probe.end.CloseWrite()
		w.WaitIdle()
		g.H.VerifFlush(true)
		w.WaitIdle()
		if plan.Prop == "C12" {
			c := readCounters()
			if c.TokensFree != c.TokensCap {
				x.fail("R-token-leak", "", fmt.Sprintf("all connections are closed and data is flushed, but only %d of %d request tokens are free", c.TokensFree, c.TokensCap))
				return
			}
			zero := [2]int64{}
			for _, cc := range []struct {
				n string
				v [2]int64
			}{{"GetData", c.Get}, {"SetData", c.Set}, {"FlushData", c.Flush}, {"AllocRL", c.Alloc}} {
				if cc.v != zero {
					sub := cc.n
					if slow {
						sub += "/slow-client"
					}
					x.fail("R-counter-nonzero", sub, fmt.Sprintf("at quiescence (all connections closed, data flushed) %s is count=%d size=%d; streams: %s", cc.n, cc.v[0], cc.v[1], streamSummary(plan)))
					return
				}
			}
			x.out.probe("counters-zero-at-quiescence")
		}
		g.H.Close()
		finished = true
	})
	// a client that goes silent inside a command body keeps the request token it was given
	// with the command line; when all max_req tokens are held that way every other connection
	// waits for a token forever
	starved := starvedNow || computeStarved()
	if starved && x.viol != nil && (x.viol.Rule == "R-proto-other-conn" || x.viol.Rule == "R-proto-wedged") {
		x.viol.Sub = "token-starvation"
	}
	switch res.Status {
	case simrt.StatusDone:
	case simrt.StatusStepCap:
		out.Inconclusive = "stepcap"
	case simrt.StatusDeadlock:
		sub := ""
		if starved {
			sub = "token-starvation"
		}
		x.fail("R-deadlock", sub, fmt.Sprintf("no task can run: %v (request tokens free: %d)", res.Blocked, readCounters().TokensFree))
	default:
		x.fail("R-"+simrt.StatusName(res.Status), "", fmt.Sprintf("process ended with %s: %s %v\n%s", simrt.StatusName(res.Status), res.Msg, res.Blocked, trunc(res.Stack, 1500)))
	}
	_ = finished
	if budgetOut && x.viol == nil {
		out.Inconclusive = "reply-step-budget"
	}
	// compare reply sequences with the reference parser's expectations
	if x.viol == nil && out.Inconclusive == "" && plan.Prop == "C11" {
		for i, cs := range conns {
			if !cs.done {
				x.fail("R-proto-wedged", "client", fmt.Sprintf("connection %d: the client task never finished", i))
				break
			}
			x.compare(i, cs.rc, cs.replies, cs.closedByServer, slow)
			if x.viol == nil {
				for _, e := range cs.rc.exps {
					if len(e.Raw) > 0 {
						if bad := roundTrip(e.Raw); bad != "" {
							x.fail("R-proto-roundtrip", "", bad)
							break
						}
						x.out.probe("request-roundtrip-checked")
					}
				}
			}
			if x.viol == nil {
				for _, r := range cs.replies {
					if bad := replyRoundTrip(r); bad != "" {
						x.fail("R-proto-roundtrip", "reply", bad)
						break
					}
					if len(r.Raw) > 0 {
						x.out.probe("reply-roundtrip-checked")
					}
				}
			}
			if x.viol != nil {
				if starved && (x.viol.Rule == "R-proto-no-reply" || x.viol.Rule == "R-proto-malformed-reply") {
					x.viol.Sub = "token-starvation"
				}
				break
			}
		}
	}
	out.absorb(sim)
	out.Violation = x.viol
	total := 0
	for _, cs := range conns {
		total += len(cs.rc.exps)
	}
	out.Nontrivial = total >= 3
	out.Sig = fnvStr(cfgClass(&plan.Cfg), fmt.Sprint(total), fmt.Sprint(sim.SchedHash), string(fnvBytes(plan)))
	out.Tapes = tape.Snapshot()
	out.Sample = map[string]interface{}{"seed": plan.Seed, "config": cfgClass(&plan.Cfg), "connections": len(conns), "expected_replies": total,
		"streams": streamSummary(plan), "steps": sim.Steps}
	_ = cmem.DBRL
	_ = config.MCConf
	_ = memcache.RL
	return out
}

func fnvBytes(p *Plan) []byte {
	var b []byte
	for _, op := range p.Ops {
		b = append(b, []byte(fnvStr(string(op.Raw)))...)
	}
	return b
}

func streamSummary(p *Plan) string {
	var s []string
	for i, op := range p.Ops {
		cut := op.At
		if cut > len(op.Raw) {
			cut = len(op.Raw)
		}
		s = append(s, fmt.Sprintf("conn%d(%d bytes, cut %d, close=%v): %q", i, len(op.Raw), cut, op.Pretend, trunc(string(op.Raw[:cut]), 300)))
	}
	return strings.Join(s, " | ")
}

func allRepliesOK(rs []Reply) bool {
	for _, r := range rs {
		if r.Malformed != "" {
			return false
		}
	}
	return true
}

func isErrorReply(r Reply) bool {
	return r.Status == "ERROR" || r.Status == "CLIENT_ERROR" || r.Status == "SERVER_ERROR"
}

// compare checks the observed reply sequence of one connection against the expectations.
func (x *protoExec) compare(ci int, rc *refConn, got []Reply, closedByServer bool, slow bool) {
	if os.Getenv("VERIF_DEBUG") != "" {
		for i, e := range rc.exps {
			fmt.Fprintf(os.Stderr, "EXP conn%d #%d kind=%d status=%q desc=%q\n", ci, i, e.Kind, e.Status, trunc(e.Desc, 80))
		}
		for i, r := range got {
			fmt.Fprintf(os.Stderr, "GOT conn%d #%d %s\n", ci, i, trunc(r.String(), 120))
		}
		fmt.Fprintf(os.Stderr, "conn%d closedByServer=%v incomplete=%v expClosed=%v\n", ci, closedByServer, rc.incomplete, rc.closed)
	}
	gi := 0
	where := func(e expect) string { return fmt.Sprintf("connection %d, command %q", ci, e.Desc) }
	for _, e := range rc.exps {
		if e.Kind == expNone {
			continue
		}
		if e.Kind == expClose {
			if gi < len(got) {
				x.fail("R-proto-extra-reply", "after-close", fmt.Sprintf("%s: expected an orderly close, got reply %s", where(e), got[gi]))
			} else if !closedByServer {
				x.fail("R-proto-no-reply", "no-close", fmt.Sprintf("%s: neither a reply nor a close", where(e)))
			}
			return
		}
		if e.Kind == expAnyOrClose {
			if gi >= len(got) && closedByServer {
				return // treated as unsupported: orderly close
			}
			if e.Quiet {
				continue
			}
		}
		if gi >= len(got) {
			if (e.Kind == expErrorOrClose || e.Kind == expErrorOrCloseHere) && closedByServer {
				return
			}
			sub := "missing"
			if slow && x.plan.Cfg.TimeoutMS < 100000 {
				sub = "timeout"
			}
			x.fail("R-proto-no-reply", sub, fmt.Sprintf("%s: no reply (got %d replies, connection closed by server: %v)", where(e), len(got), closedByServer))
			return
		}
		r := got[gi]
		gi++
		if r.Malformed != "" {
			x.fail("R-proto-malformed-reply", "", fmt.Sprintf("%s: %s", where(e), r))
			return
		}
		if !validStatus(r) {
			if slow && (r.Status == "RECV_TIMEOUT" || r.Status == "PROCESS_TIMEOUT") {
				x.out.probe("slow-client-timeout-reply")
				continue
			}
			x.fail("R-proto-malformed-reply", "status", fmt.Sprintf("%s: reply line %q is not a protocol reply", where(e), trunc(r.Status+" "+r.Msg, 80)))
			return
		}
		switch e.Kind {
		case expErrorMayClose:
			if !isErrorReply(r) {
				x.fail("R-proto-order", "expected-error", fmt.Sprintf("%s: expected an error reply, got %s", where(e), r))
				return
			}
			if gi == len(got) && closedByServer {
				return // orderly close after refusing the value
			}
			x.out.probe("oversize-body-swallowed")
		case expError, expErrorOrClose, expErrorOrCloseHere:
			if !isErrorReply(r) {
				x.fail("R-proto-order", "expected-error", fmt.Sprintf("%s: expected an error reply, got %s", where(e), r))
				return
			}
		case expAny, expAnyOrClose:
		case expExact:
			if e.Status == "VERSION" || e.Msg == "stats" {
				if r.Status != e.Status {
					x.fail("R-proto-order", "status", fmt.Sprintf("%s: expected %s, got %s", where(e), e.Status, r))
					return
				}
				continue
			}
			if r.Status != e.Status {
				if isErrorReply(r) && e.Status == "END" {
					// a retrieval may legitimately fail with SERVER_ERROR only under faults; none here
				}
				x.fail("R-proto-order", "status", fmt.Sprintf("%s: expected %s, got %s", where(e), e.Status, r))
				return
			}
			if e.Items != nil || len(r.Items) > 0 {
				if len(r.Items) != len(e.Items) {
					x.fail("R-proto-bytes", "items", fmt.Sprintf("%s: expected %d values, got %d (%s)", where(e), len(e.Items), len(r.Items), r))
					return
				}
				for _, it := range r.Items {
					w, ok := e.Items[it.Key]
					if !ok || !bytes.Equal(w.Val, it.Bytes) || w.Flag != it.Flag {
						x.fail("R-proto-bytes", "value", fmt.Sprintf("%s: key %q returned %d bytes flag %d, expected %d bytes flag %d (present=%v)", where(e), it.Key, len(it.Bytes), it.Flag, len(w.Val), w.Flag, ok))
						return
					}
				}
			}
		}
	}
	if gi < len(got) {
		x.fail("R-proto-extra-reply", "", fmt.Sprintf("connection %d: %d replies more than commands, first extra: %s", ci, len(got)-gi, got[gi]))
	}
}

// roundTrip: the repository's own codec must parse a well-formed command, serialise it and
// parse it back to the same request (checked in situ on the commands the server answered).
func roundTrip(raw []byte) string {
	config.MCConf.MaxReq = 16
	memcache.InitTokens() // tokens of the finished world may still be held by its dead tasks
	read := func(b []byte) (*memcache.Request, error) {
		req := new(memcache.Request)
		err := req.Read(bufio.NewReader(bytes.NewReader(b)))
		return req, err
	}
	release := func(req *memcache.Request) {
		if req.Item != nil && req.Item.CArray.Cap > 0 && (req.Cmd != "incr" && req.Cmd != "decr") {
			cmem.DBRL.SetData.SubSizeAndCount(req.Item.CArray.Cap)
			req.Item.CArray.Free()
		} else if req.Item != nil && req.Cmd != "incr" && req.Cmd != "decr" {
			cmem.DBRL.SetData.SubSizeAndCount(0)
		}
		if req.Cmd == "incr" || req.Cmd == "decr" {
			cmem.DBRL.SetData.SubCount(1)
		}
		if req.Working {
			memcache.RL.Put(req)
		}
	}
	r1, err := read(raw)
	if err != nil {
		if r1 != nil {
			release(r1)
		}
		return ""
	}
	defer release(r1)
	var buf bytes.Buffer
	if err := r1.Write(&buf); err != nil {
		return ""
	}
	r2, err := read(buf.Bytes())
	if err != nil {
		return fmt.Sprintf("command %q serialised by Request.Write as %q does not parse: %v", trunc(string(raw), 60), trunc(buf.String(), 60), err)
	}
	defer release(r2)
	if r1.Cmd != r2.Cmd || strings.Join(r1.Keys, " ") != strings.Join(r2.Keys, " ") || r1.NoReply != r2.NoReply {
		return fmt.Sprintf("command %q -> %q: cmd/keys/noreply differ (%s %v %v vs %s %v %v)", trunc(string(raw), 60), trunc(buf.String(), 60), r1.Cmd, r1.Keys, r1.NoReply, r2.Cmd, r2.Keys, r2.NoReply)
	}
	if (r1.Item == nil) != (r2.Item == nil) {
		return fmt.Sprintf("command %q: item presence differs after a round trip", trunc(string(raw), 60))
	}
	if r1.Item != nil && (r1.Item.Flag != r2.Item.Flag || r1.Item.Exptime != r2.Item.Exptime || !bytes.Equal(r1.Item.Body, r2.Item.Body)) {
		return fmt.Sprintf("command %q: flag/exptime/body differ after a round trip", trunc(string(raw), 60))
	}
	return ""
}

// replyRoundTrip: a reply the server serialised must parse back (Response.Read, the repository's
// own client-side parser) to the same reply: same status, same message, same items (key, flags,
// cas, bytes); and serialising the parsed reply again (Response.Write) must give a byte stream
// that the independent parser reads as the same reply.
func replyRoundTrip(r Reply) string {
	if len(r.Raw) == 0 || r.Malformed != "" || !validStatus(r) {
		return ""
	}
	resp := new(memcache.Response)
	err := resp.Read(bufio.NewReader(bytes.NewReader(r.Raw)))
	defer func() {
		if resp.Items != nil {
			resp.CleanBuffer()
		}
	}()
	if err == memcache.ErrValueTooLarge {
		return "" // the client-side parser applies body_max to listings too; not a round-trip question
	}
	if err != nil {
		return fmt.Sprintf("reply %q does not parse back with Response.Read: %v", trunc(string(r.Raw), 80), err)
	}
	same := func(tag string, items map[string]*memcache.Item) string {
		want := len(r.Items)
		if len(r.Stats) > 0 {
			want = len(r.Stats)
		}
		if len(items) != want {
			return fmt.Sprintf("%s: reply %q has %d items, parsed back %d", tag, trunc(string(r.Raw), 80), want, len(items))
		}
		for _, it := range r.Items {
			g, ok := items[it.Key]
			if !ok || uint64(g.Flag) != it.Flag || !bytes.Equal(g.Body, it.Bytes) {
				return fmt.Sprintf("%s: item %q of reply %q differs after parsing back (present=%v)", tag, it.Key, trunc(string(r.Raw), 80), ok)
			}
			if it.Cas != "" && strconv.Itoa(g.Cas) != it.Cas {
				return fmt.Sprintf("%s: cas of item %q is %s, parsed back %d", tag, it.Key, it.Cas, g.Cas)
			}
		}
		for _, st := range r.Stats {
			g, ok := items[st[0]]
			if !ok || string(g.Body) != st[1] {
				return fmt.Sprintf("%s: STAT %s %s lost after parsing back", tag, st[0], st[1])
			}
		}
		return ""
	}
	if bad := same("Response.Read", resp.Items); bad != "" {
		return bad
	}
	if _, e := strconv.ParseInt(r.Status, 10, 64); e == nil {
		if resp.Status != "INCR" || resp.Msg != r.Status {
			return fmt.Sprintf("numeric reply %q parsed back as status %q msg %q", r.Status, resp.Status, resp.Msg)
		}
	} else if resp.Status != r.Status || resp.Msg != r.Msg {
		return fmt.Sprintf("reply %q parsed back as status %q message %q", trunc(string(r.Raw), 80), resp.Status, resp.Msg)
	}
	// second half: serialise what was parsed, read it with the independent parser
	if len(r.Stats) > 0 {
		return "" // Response.Write takes stats as preformatted text; nothing to re-serialise
	}
	out := &memcache.Response{Status: resp.Status, Msg: resp.Msg, Items: resp.Items}
	if len(r.Items) > 0 {
		out.Status = "VALUE"
		out.Cas = r.Items[0].Cas != ""
	}
	var buf bytes.Buffer
	if e := out.Write(&buf); e != nil {
		return fmt.Sprintf("Response.Write of the parsed reply %q failed: %v", trunc(string(r.Raw), 80), e)
	}
	r2, n, bad := parseReply(buf.Bytes())
	if bad != "" || n != buf.Len() {
		return fmt.Sprintf("reply %q parsed and serialised again gives %q: %s", trunc(string(r.Raw), 80), trunc(buf.String(), 80), bad)
	}
	if r2.Status != r.Status || r2.Msg != r.Msg || len(r2.Items) != len(r.Items) {
		return fmt.Sprintf("reply %q parsed and serialised again gives %q", trunc(string(r.Raw), 80), trunc(buf.String(), 80))
	}
	m := map[string]RItem{}
	for _, it := range r2.Items {
		m[it.Key] = it
	}
	for _, it := range r.Items {
		g, ok := m[it.Key]
		if !ok || g.Flag != it.Flag || g.Cas != it.Cas || !bytes.Equal(g.Bytes, it.Bytes) {
			return fmt.Sprintf("item %q of reply %q differs after parse + serialise", it.Key, trunc(string(r.Raw), 80))
		}
	}
	return ""
}

func init() {
	engines["C11"] = engine{genProtoPlan, runProto}
	engines["C12"] = engine{genProtoPlan, runProto}
}
