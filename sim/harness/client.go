package main

import (
	"os"
	"bytes"
	"fmt"
	"sort"
	"strconv"
	"strings"
	"time"

	simrt "github.com/douban/gobeansdb/zzsimrt"
)

// PClient is a simulated memcached-protocol client driven by a harness task.
type PClient struct {
	g    *Gen
	end  *simrt.ClientEnd
	conn *simrt.Conn
	name string
	rbuf []byte
}

type RItem struct {
	Key   string
	Flag  uint64
	Cas   string
	Bytes []byte
}

// Reply is one parsed server reply (independent parser; also the well-formedness oracle).
type Reply struct {
	Items  []RItem
	Stats  [][2]string
	Status string // last line's first word (END, STORED, ... or a number) ; "" if closed without reply
	Msg    string
	Closed bool   // connection closed by the server before/without a complete reply
	NoReply bool  // server is waiting for more input and has sent nothing (wedged or noreply)
	Budget  bool  // the step budget of the wait ran out while the server was still running: inconclusive
	Malformed string
	Raw    []byte
}

func (r Reply) String() string {
	if r.Malformed != "" {
		return "MALFORMED(" + r.Malformed + ") raw=" + strconv.Quote(string(trunc(string(r.Raw), 120)))
	}
	if r.Closed && r.Status == "" {
		return "CLOSED"
	}
	if r.NoReply {
		return "NOREPLY"
	}
	s := r.Status
	if r.Msg != "" {
		s += " " + r.Msg
	}
	for _, it := range r.Items {
		s += fmt.Sprintf(" [%s f=%d n=%d]", trunc(it.Key, 20), it.Flag, len(it.Bytes))
	}
	return s
}

// parseReply tries to parse one complete reply at the start of buf.
// consumed==0 && err=="" means incomplete.
func parseReply(buf []byte) (r Reply, consumed int, malformed string) {
	pos := 0
	for {
		i := bytes.IndexByte(buf[pos:], '\n')
		if i < 0 {
			return Reply{}, 0, ""
		}
		line := buf[pos : pos+i+1]
		if len(line) < 2 || line[len(line)-2] != '\r' {
			// listing bodies end lines with \n only, but those are inside VALUE blocks; a
			// reply line itself must end in \r\n
			return Reply{}, 0, fmt.Sprintf("reply line not terminated by CRLF: %q", trunc(string(line), 80))
		}
		text := string(line[:len(line)-2])
		pos += i + 1
		parts := strings.Split(text, " ")
		switch parts[0] {
		case "VALUE":
			if len(parts) != 4 && len(parts) != 5 {
				return Reply{}, 0, "bad VALUE line: " + trunc(text, 80)
			}
			flag, e1 := strconv.ParseUint(parts[2], 10, 64)
			n, e2 := strconv.Atoi(parts[3])
			if e1 != nil || e2 != nil || n < 0 {
				return Reply{}, 0, "bad VALUE numbers: " + trunc(text, 80)
			}
			if len(buf) < pos+n+2 {
				return Reply{}, 0, ""
			}
			if buf[pos+n] != '\r' || buf[pos+n+1] != '\n' {
				return Reply{}, 0, "value block not followed by CRLF"
			}
			it := RItem{Key: parts[1], Flag: flag, Bytes: append([]byte(nil), buf[pos:pos+n]...)}
			if len(parts) == 5 {
				it.Cas = parts[4]
			}
			r.Items = append(r.Items, it)
			pos += n + 2
			continue
		case "STAT":
			if len(parts) != 3 {
				return Reply{}, 0, "bad STAT line: " + trunc(text, 80)
			}
			r.Stats = append(r.Stats, [2]string{parts[1], parts[2]})
			continue
		}
		r.Status = parts[0]
		if len(parts) > 1 {
			r.Msg = strings.Join(parts[1:], " ")
		}
		if len(r.Items) > 0 || len(r.Stats) > 0 {
			if r.Status != "END" {
				return Reply{}, 0, "VALUE/STAT blocks not terminated by END: " + trunc(text, 80)
			}
		}
		if r.Status == "" {
			return Reply{}, 0, "empty reply line"
		}
		r.Raw = append([]byte(nil), buf[:pos]...)
		return r, pos, ""
	}
}

var statusWords = map[string]bool{"END": true, "STORED": true, "NOT_STORED": true, "DELETED": true, "NOT_FOUND": true,
	"OK": true, "ERROR": true, "CLIENT_ERROR": true, "SERVER_ERROR": true, "VERSION": true, "EXISTS": true}

// validStatus reports whether a terminal line is one of the protocol's reply forms.
func validStatus(r Reply) bool {
	if statusWords[r.Status] {
		return true
	}
	if _, err := strconv.ParseInt(r.Status, 10, 64); err == nil && r.Msg == "" {
		return true
	}
	return false
}

// Send delivers bytes to the server in one piece.
func (c *PClient) Send(b []byte) {
	c.end.Deliver(b)
	c.g.W.HarnessYield()
}

// SendFragments delivers b in the given fragment sizes with simulated delays between them.
func (c *PClient) SendFragments(b []byte, sizes []int, delay time.Duration) {
	for _, n := range sizes {
		if n > len(b) {
			n = len(b)
		}
		if n == 0 {
			continue
		}
		c.end.Deliver(b[:n])
		b = b[n:]
		if delay > 0 {
			simrt.Sleep(delay)
		} else {
			c.g.W.HarnessYield()
		}
	}
	if len(b) > 0 {
		c.end.Deliver(b)
		c.g.W.HarnessYield()
	}
}

const replyWaitSteps = 150000

// ReadReply waits until one complete reply has arrived, the server closed the connection, or
// the server went back to waiting for input without having replied.
func (c *PClient) ReadReply() Reply {
	w := c.g.W
	for {
		c.rbuf = append(c.rbuf, c.end.Take()...)
		if len(c.rbuf) > 0 {
			r, n, bad := parseReply(c.rbuf)
			if bad != "" {
				raw := append([]byte(nil), c.rbuf...)
				c.rbuf = nil
				return Reply{Malformed: bad, Raw: raw}
			}
			if n > 0 {
				c.rbuf = c.rbuf[n:]
				c.logReply(r)
				return r
			}
		}
		if c.end.ServerClosed() {
			raw := c.rbuf
			c.rbuf = nil
			if len(raw) > 0 {
				return Reply{Closed: true, Malformed: "connection closed inside a reply", Raw: raw}
			}
			return Reply{Closed: true}
		}
		if c.conn.BlockedInRead() && len(c.end.Peek()) == 0 {
			if len(c.rbuf) > 0 {
				raw := c.rbuf
				c.rbuf = nil
				return Reply{NoReply: true, Malformed: "server waits for input after an incomplete reply", Raw: raw}
			}
			if os.Getenv("VERIF_DEBUG") != "" {
				fmt.Fprintf(os.Stderr, "NOREPLY %s step=%d bytesIn=%d readCalls=%d live=%v\n", c.name, w.Steps(), c.conn.BytesIn, c.conn.ReadCalls, w.LiveTasks())
			}
			return Reply{NoReply: true}
		}
		have := len(c.end.Peek())
		budget := int64(replyWaitSteps)
		if w.Cfg.StmtYield {
			budget *= 4
		}
		ok := w.WaitCondSteps("reply:"+c.name, budget, func() bool {
			return len(c.end.Peek()) > have || c.end.ServerClosed() || c.conn.BlockedInRead()
		})
		if !ok {
			// the server task is neither blocked in Read nor finished: it (or the background
			// loops) consumed the whole step budget. Not a verdict about the server.
			return Reply{NoReply: true, Budget: true}
		}
	}
}

func (c *PClient) Do(cmd []byte) Reply {
	c.Send(cmd)
	return c.ReadReply()
}

func (c *PClient) Close() {
	c.end.CloseWrite()
	c.g.W.HarnessYield()
}

// command builders

func cmdSet(verb, key string, flag uint64, rev int64, val []byte, noreply bool) []byte {
	var b bytes.Buffer
	fmt.Fprintf(&b, "%s %s %d %d %d", verb, key, flag, rev, len(val))
	if noreply {
		b.WriteString(" noreply")
	}
	b.WriteString("\r\n")
	b.Write(val)
	b.WriteString("\r\n")
	return b.Bytes()
}

func cmdGet(keys ...string) []byte {
	return []byte("get " + strings.Join(keys, " ") + "\r\n")
}

func cmdDelete(key string) []byte { return []byte("delete " + key + "\r\n") }

func cmdIncr(key string, delta int64) []byte {
	return []byte(fmt.Sprintf("incr %s %d\r\n", key, delta))
}

// logReply adds the reply to the canonical event log (items sorted: multi-get order follows Go
// map iteration and is not part of the behaviour).
func (c *PClient) logReply(r Reply) {
	s := c.g.S
	items := append([]RItem(nil), r.Items...)
	sort.Slice(items, func(i, j int) bool { return items[i].Key < items[j].Key })
	for _, it := range items {
		s.logEvent("item", it.Key, int64(it.Flag), it.Bytes)
	}
	if r.Status != "END" || len(r.Stats) == 0 {
		s.logEvent("reply", r.Status+" "+r.Msg, c.g.W.Steps(), nil)
	}
}
