package main

import (
	"encoding/binary"
	"fmt"

	"github.com/douban/gobeansdb/quicklz"
)

// A Plan is the structured, minimisable description of one simulated world: configuration,
// key table and operation lists. Together with the schedule and fault tapes it determines
// the execution completely.
type Plan struct {
	Prop    string
	Seed    uint64
	Cfg     SimCfg
	Keys    [][]byte
	Groups  [][]int `json:",omitempty"` // C13: groups of key indexes forced onto one key hash
	Ops     []Op
	Clients [][]Op `json:",omitempty"` // concurrent engines: one list per client task
	Extra   map[string]int64 `json:",omitempty"`
}

type ValSpec struct {
	Class int
	Len   int
	Seed  uint32
}

type Op struct {
	ID    int
	Kind  string
	K     int     `json:",omitempty"`
	Ks    []int   `json:",omitempty"`
	V     ValSpec `json:",omitempty"`
	VID   int     `json:",omitempty"` // value identity (op id whose bytes are used); 0 = own id
	Flag  uint32  `json:",omitempty"`
	Rev   int32   `json:",omitempty"`
	Delta int64   `json:",omitempty"`
	Verb  string  `json:",omitempty"`
	D     int64   `json:",omitempty"` // ms for advance
	Del   []string `json:",omitempty"` // restart: index classes to delete
	DelSeed uint32 `json:",omitempty"`
	Kill    bool   `json:",omitempty"` // restart: stop without Close (data flushed first), i.e. an unclean stop that loses nothing
	GCBucket int  `json:",omitempty"`
	GCStart int   `json:",omitempty"`
	GCEnd   int   `json:",omitempty"`
	GCDays  int   `json:",omitempty"`
	Merge   bool  `json:",omitempty"`
	Pretend bool  `json:",omitempty"`
	Raw     []byte `json:",omitempty"` // protocol engines: raw bytes
	Frag    []int  `json:",omitempty"`
	DelayMS int64  `json:",omitempty"`
	At      int    `json:",omitempty"`
	Route   []int  `json:",omitempty"` // restart (C15): the served-bucket set of the next process generation (route change); nil = unchanged
	Traffic []Op   `json:",omitempty"` // gc (C07): client writes placed inside the pass through a second connection
	CancelAt int   `json:",omitempty"` // gc (C03): a cancel request is placed right before the n-th relocation write of the pass
	CloseAt int    `json:",omitempty"` // gc (C07): a clean shutdown is started at the n-th disk mutation of the pass; the process exits when it returns
}

func (o Op) String() string {
	switch o.Kind {
	case "set":
		return fmt.Sprintf("#%d set k%d class=%d len=%d flag=%#x rev=%d", o.ID, o.K, o.V.Class, o.V.Len, o.Flag, o.Rev)
	case "del", "get", "meta", "meta2":
		return fmt.Sprintf("#%d %s k%d", o.ID, o.Kind, o.K)
	case "incr":
		return fmt.Sprintf("#%d incr k%d %d", o.ID, o.K, o.Delta)
	case "mget":
		return fmt.Sprintf("#%d mget %v", o.ID, o.Ks)
	case "advance":
		return fmt.Sprintf("#%d advance %dms", o.ID, o.D)
	case "restart":
		return fmt.Sprintf("#%d restart del=%v seed=%d kill=%v", o.ID, o.Del, o.DelSeed, o.Kill)
	case "gc":
		return fmt.Sprintf("#%d gc b=%d [%d,%d] days=%d merge=%v pretend=%v", o.ID, o.GCBucket, o.GCStart, o.GCEnd, o.GCDays, o.Merge, o.Pretend)
	}
	return fmt.Sprintf("#%d %s", o.ID, o.Kind)
}

// value classes
const (
	VConst = iota
	VPeriodic
	VText
	VRandom
	VWav
	VMpeg
	VMixed // compressible head + random tail
	VNumber
	VZeroHash // value whose 16-bit value hash is 0 (the hash a delete payload carries)
	VQlz       // a well-formed QuickLZ stream (what a client that compresses with QuickLZ itself stores, with the client-compressed flag)
	VQlzStored // bytes that happen to look like a short "stored" QuickLZ header (e.g. a zlib stream: 78 9c ... of exactly 0x9c bytes)
	numVClasses
)

// makeValue builds the bytes of a value deterministically from its spec. The op id is
// embedded (when there is room) so that every written value is unique and every read is
// attributable to exactly one write.
func makeValue(v ValSpec, id int) []byte {
	n := v.Len
	b := make([]byte, n)
	r := NewRng(uint64(v.Seed)*7919 + uint64(id))
	switch v.Class {
	case VConst:
		c := byte('a' + v.Seed%26)
		for i := range b {
			b[i] = c
		}
	case VPeriodic:
		p := int(v.Seed%13) + 2
		for i := range b {
			b[i] = byte('A' + (i % p))
		}
	case VText:
		words := []string{"the ", "quick ", "brown ", "fox ", "jumps ", "over ", "lazy ", "dog ", "\r\n", "beansdb ", "\x00", "END\r\n"}
		i := 0
		for i < n {
			w := words[r.Intn(len(words))]
			i += copy(b[i:], w)
		}
	case VRandom:
		for i := 0; i+8 <= n; i += 8 {
			binary.LittleEndian.PutUint64(b[i:], r.U64())
		}
		for i := n &^ 7; i < n; i++ {
			b[i] = byte(r.U64())
		}
	case VWav:
		for i := range b {
			b[i] = byte(i % 7)
		}
		copy(b, "RIFF\x24\x08\x00\x00WAVEfmt ")
	case VMpeg:
		for i := range b {
			b[i] = byte(i % 5)
		}
		copy(b, "ID3\x03\x00\x00\x00\x00\x00\x0a")
	case VMixed:
		h := n / 3
		for i := 0; i < h; i++ {
			b[i] = 'm'
		}
		for i := h; i < n; i++ {
			b[i] = byte(r.U64())
		}
	case VNumber:
		s := fmt.Sprintf("%d", int64(v.Seed%100000)-50000)
		return []byte(s)
	case VQlz:
		// Len is the length of the text that the "client" compressed
		src := makeValue(ValSpec{Class: VText, Len: n, Seed: v.Seed}, id)
		if len(src) < 8 {
			src = []byte(fmt.Sprintf("<%d>qlz-client-text", id))
		}
		return quicklz.Compress(src, 3)
	case VQlzStored:
		if n < 8 {
			n = 8
		}
		if n > 255 {
			n = 255
		}
		b = make([]byte, n)
		for i := range b {
			b[i] = byte(r.U64())
		}
		b[0] = []byte{0x78, 0x78, 0x0c, 0x00, 0x04}[v.Seed%5] // bit 0 clear: not compressed, bit 1 clear: 3-byte header
		b[1] = byte(n)                                         // "compressed size" = total length
		b[2] = byte(n - 3 - int(v.Seed>>8)%3)                  // "decompressed size"
		tag := fmt.Sprintf("<%d>", id)
		if 3+len(tag) <= n {
			copy(b[3:], tag)
		}
		return b
	case VZeroHash:
		if n < 12 {
			n = 12
		}
		b = make([]byte, n)
		for i := range b {
			b[i] = 'z'
		}
		tag := fmt.Sprintf("<%d>", id)
		copy(b, tag)
		for c := uint32(0); ; c++ {
			binary.LittleEndian.PutUint32(b[n-4:], c)
			if refVHash(b) == 0 {
				return b
			}
		}
	}
	// embed the id: after any sniffed signature, else at the start
	tag := fmt.Sprintf("<%d>", id)
	off := 0
	if v.Class == VWav || v.Class == VMpeg {
		off = 16
	}
	if off+len(tag) <= n {
		copy(b[off:], tag)
	} else if len(tag) <= n {
		copy(b[n-len(tag):], tag)
	}
	return b
}

func (o Op) vid() int {
	if o.VID != 0 {
		return o.VID
	}
	return o.ID
}
