package main

var ruleTexts = map[string]string{
	"C01": "one seeded world = drawn configuration (buckets, tree height, check_vhash, file/split/bufio limits, body_c_str, scheduler policy) + 5..80 protocol operations of one client (set/add/replace/cas with rev 0 or explicit, delete, incr, get, multi-get, ?meta, ??meta, forced flush, flusher tick, hint dump, clock advance) executed against the real server loop; every reply is compared with the reference map. Non-trivial: >=3 accepted writes and >=2 read hits; distinct by (configuration class, operation-kind sequence, schedule-trace hash).",
	"C02": "C01 worlds with clean shutdown/reopen at drawn positions (Close racing the real flusher / hint dumper / post-rotation flush tasks under the seeded scheduler) and a drawn subset of *.idx.hash, *.idx.s, *.idx.m deleted before each reopen; after every reopen all keys are read (get + meta-get) and compared with the model. Non-trivial: as C01 and >=1 restart; distinct as C01.",
	"C03": "histories spread over several small data files, GC through the public HStore.GC with drawn (start,end,no_gc_days,merge,pretend), full read-back after the pass, restarts with index subsets removed, further operations and passes. Non-trivial: >=1 completed pass that released >=1 record and kept >=1; distinct as C01.",
	"C18": "C03 worlds; after each completed pass the independent scanner reads every surviving data file of the resolved range and compares each record with the model's current record of its key; prefix of an appended-to earlier file compared byte for byte. Non-trivial: a pass released >=1 and kept >=1 record.",
	"C04": "one world = 2..16 client tasks x 5..25 operations (set, delete, get, meta-get through HStore) on 2..6 shared keys in 1..3 buckets + the real Flusher and HintDumper loops + an environment task (forced flush, hint dump, clock jumps), interleaved by a seeded scheduler (random walk / PCT / spawn delay, optional yields at store function entries); the history (event-counter stamped) is checked per key with porcupine. Non-trivial: at least two operations of different clients on one key overlapped; distinct by (configuration class, history length, schedule-trace hash).",
	"C05": "C04 worlds preceded by a sequential preload over several small data files and accompanied by one public GC pass (drawn range, merge on/off, optional CancelGC) started at a drawn step; reads overlapping the pass may miss or fail (counted as degraded), everything else is checked as in C04, then final state and clean restart. Non-trivial: overlapping operations and an accepted pass.",
	"C17": "two kinds of worlds: (a) sequential histories with many GC requests with arbitrary (start,end,no_gc_days,merge,pretend) incl. negative / out-of-range ids, clock jumps of hours..weeks, gaps from earlier passes, unflushed head: the disk-seam event log of every pass and before/after inventories are checked; (b) two competing GC requests for one bucket under seeded schedules with a pass-overlap detector. Non-trivial: >=1 accepted pass (b) or >=3 writes and >=2 read hits (a).",
	"C06": "a generated history (C02 style: writes, flushes, rotation, hint and tree dumps, clean restarts) is executed once; at file-system mutation boundaries (every boundary in the thorough tier, a drawn 1/6 in the quick tier) the directory is snapshotted as SIGKILL would leave it, plus torn variants of every data write (1 byte, header-1, header+1, every 256 boundary, one drawn cut; two drawn cuts in quick); each snapshot is recovered with NewHStore and every key is read. evaluations = recovered snapshots; distinct_nontrivial = distinct (fault kind, number of keys with a durable record, partial-tail yes/no, cut mod 256) classes.",
	"C07": "C03-style layouts with one or more GC passes and no concurrent writes; snapshots at the file-system mutation boundaries inside each pass (+ torn relocated records), recovered and read back against the pre-pass model state. evaluations and classes as C06.",
	"C15": "C01-style worlds over bucket count {1,16,256} with served subsets none/one/some/all and keys routed by the reference key hash into served and unserved buckets; every data append seen at the disk seam is decoded and its directory compared with the reference routing; unserved keys must miss and cause no append; upper-level listings are compared with the aggregate of bucket roots. Non-trivial: >=3 accepted writes and >=2 read hits.",
}

func ruleText(prop string) string {
	if s, ok := ruleTexts[prop]; ok {
		return s
	}
	return "seeded simulated worlds; see DESIGN.md section 4 for " + prop
}

func assumptions(prop string) []string {
	a := []string{
		"interleavings are explored at synchronisation / spawn / disk / network points (plus store function entries when the per-world option is on); two accesses to an unsynchronised field between two such points are never interleaved; Go memory-model reorderings are not modelled",
		"the rewritten scratch copy differs from /repo only at the substituted sync/go/time/os/channel call sites (mechanical go/ast rewrite, fails loudly on unknown primitives)",
		"sampling, not proof: a clean batch is evidence for the sampled configurations, histories, schedules and faults only",
	}
	switch prop {
	case "C06", "C07":
		a = append(a, "crash model is SIGKILL: completed write(2) calls survive (possibly torn at any byte), user-space buffers are lost; no power-loss reordering (the code never calls fsync)")
	case "C09":
		a = append(a, "CRC-32 collisions for multi-bit damage (2^-32) are ignored")
	}
	return a
}
