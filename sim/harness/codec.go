package main

// Independent reference implementations of the on-disk and cross-replica formulas, written
// from the historical beansdb definitions (not from the Go code under test).

import (
	"encoding/binary"
	"hash/crc32"
	"os"
)

// signed-byte FNV-1a variant used by beansdb (the byte is sign-extended before the xor).
func refFnv1a(b []byte) uint32 {
	h := uint32(0x811c9dc5)
	for _, c := range b {
		h ^= uint32(int32(int8(c)))
		h *= 0x01000193
	}
	return h
}

// MurmurHash3 x86_32, seed 0.
func refMurmur3(data []byte) uint32 {
	const c1, c2 = 0xcc9e2d51, 0x1b873593
	h := uint32(0)
	n := len(data)
	i := 0
	for ; i+4 <= n; i += 4 {
		k := binary.LittleEndian.Uint32(data[i:])
		k *= c1
		k = (k << 15) | (k >> 17)
		k *= c2
		h ^= k
		h = (h << 13) | (h >> 19)
		h = h*5 + 0xe6546b64
	}
	var k uint32
	switch n & 3 {
	case 3:
		k ^= uint32(data[i+2]) << 16
		fallthrough
	case 2:
		k ^= uint32(data[i+1]) << 8
		fallthrough
	case 1:
		k ^= uint32(data[i])
		k *= c1
		k = (k << 15) | (k >> 17)
		k *= c2
		h ^= k
	}
	h ^= uint32(n)
	h ^= h >> 16
	h *= 0x85ebca6b
	h ^= h >> 13
	h *= 0xc2b2ae35
	h ^= h >> 16
	return h
}

func refKeyHash(key []byte) uint64 {
	return uint64(refFnv1a(key))<<32 | uint64(refMurmur3(key))
}

// 16-bit value hash: len*97 + fnv(whole) for <=1024 bytes, else (len*97+fnv(first512))*97+fnv(last512)
func refVHash(v []byte) uint16 {
	l := len(v)
	h := uint32(l) * 97
	if l <= 1024 {
		h += refFnv1a(v)
	} else {
		h += refFnv1a(v[:512])
		h *= 97
		h += refFnv1a(v[l-512:])
	}
	return uint16(h)
}

const recHdr = 24

type refRecord struct {
	Off   uint32
	CRC   uint32
	TS    uint32
	Flag  uint32
	Ver   int32
	Key   []byte
	Val   []byte // as stored (possibly server-compressed)
	Size  uint32 // padded size
}

func refPadded(ksz, vsz int) uint32 {
	n := uint32(recHdr + ksz + vsz)
	return (n + 255) &^ 255
}

// refEncode produces the documented layout: crc | ts | flag | ver | ksz | vsz (LE), key, value,
// zero padding to 256; crc = CRC-32 (IEEE) over header[4:] + key + value.
func refEncode(ts, flag uint32, ver int32, key, val []byte) []byte {
	size := refPadded(len(key), len(val))
	b := make([]byte, size)
	binary.LittleEndian.PutUint32(b[4:], ts)
	binary.LittleEndian.PutUint32(b[8:], flag)
	binary.LittleEndian.PutUint32(b[12:], uint32(ver))
	binary.LittleEndian.PutUint32(b[16:], uint32(len(key)))
	binary.LittleEndian.PutUint32(b[20:], uint32(len(val)))
	copy(b[24:], key)
	copy(b[24+len(key):], val)
	crc := crc32.ChecksumIEEE(b[4 : 24+len(key)+len(val)])
	binary.LittleEndian.PutUint32(b[0:], crc)
	return b
}

// refDecodeAt decodes one record at off; ok=false if it is not an intact record.
func refDecodeAt(data []byte, off int, maxKey, maxVal int) (r refRecord, ok bool) {
	if off+recHdr > len(data) {
		return
	}
	h := data[off:]
	r.Off = uint32(off)
	r.CRC = binary.LittleEndian.Uint32(h[0:])
	r.TS = binary.LittleEndian.Uint32(h[4:])
	r.Flag = binary.LittleEndian.Uint32(h[8:])
	r.Ver = int32(binary.LittleEndian.Uint32(h[12:]))
	ksz := binary.LittleEndian.Uint32(h[16:])
	vsz := binary.LittleEndian.Uint32(h[20:])
	if ksz == 0 || ksz > uint32(maxKey) || vsz > uint32(maxVal) {
		return
	}
	end := off + recHdr + int(ksz) + int(vsz)
	if end > len(data) {
		return
	}
	if crc32.ChecksumIEEE(data[off+4:end]) != r.CRC {
		return
	}
	r.Key = data[off+24 : off+24+int(ksz)]
	r.Val = data[off+24+int(ksz) : end]
	r.Size = refPadded(int(ksz), int(vsz))
	return r, true
}

type refScan struct {
	Recs       []refRecord
	Broken     []uint32 // 256-aligned offsets that do not start an intact record and are not covered by one
	PartialEnd bool     // the file ends inside what looks like a record / is not 256 aligned / has a broken tail block
	Size       int
}

// refScanFile is the resynchronising scanner: records are looked for at 256-byte boundaries;
// after an intact record the scan continues behind its padded size.
func refScanBytes(data []byte, maxKey, maxVal int) refScan {
	var s refScan
	s.Size = len(data)
	off := 0
	for off < len(data) {
		r, ok := refDecodeAt(data, off, maxKey, maxVal)
		if ok {
			s.Recs = append(s.Recs, r)
			off += int(r.Size)
			continue
		}
		s.Broken = append(s.Broken, uint32(off))
		off += 256
	}
	if len(data)%256 != 0 {
		s.PartialEnd = true
	}
	if n := len(s.Broken); n > 0 {
		// a broken region that reaches the end of the file is a partially written tail
		last := int(s.Broken[n-1])
		tailFrom := last
		for i := n - 1; i > 0 && int(s.Broken[i-1]) == tailFrom-256; i-- {
			tailFrom -= 256
		}
		if last+256 >= len(data) {
			s.PartialEnd = true
		}
	}
	return s
}

func refScanFile(path string, maxKey, maxVal int) (refScan, error) {
	data, err := os.ReadFile(path)
	if err != nil {
		return refScan{}, err
	}
	return refScanBytes(data, maxKey, maxVal), nil
}

const flagServerCompress = 0x10000
const flagClientCompress = 0x10
const flagIncr = 0x204
