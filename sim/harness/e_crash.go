package main

import (
	"bytes"
	"fmt"
	"os"
	"path/filepath"
	"sort"
	"strings"
	"time"

	simrt "github.com/douban/gobeansdb/zzsimrt"
)

// Crash engines (C06, C07): a history is executed once; at file-system mutation boundaries
// (all of them in the thorough tier, a drawn subset in the quick tier) the world directory is
// snapshotted as a SIGKILL would leave it, plus torn variants of data writes. Afterwards every
// snapshot is recovered with NewHStore and read back; the independent scanner decides what was
// durable.

type issued struct {
	ID   int
	Val  []byte
	Flag uint32
	Tomb bool
	Incr bool
}

type snapshot struct {
	Dir    string
	Seq    int64
	Kind   string // fault kind label
	Torn   int    // bytes of the pending write applied (-1 = none)
	OpID   int
	InGC   bool
	Issued [][]issued // per key: all writes issued so far (acknowledged or in flight)
	PreGC  [][]Alt    // C07: model state of every key when the enclosing pass started
	Stale  bool       // C07: a data file rewritten in place still carries its stale tail
	DupTail bool      // C07: ... and that tail provably holds nothing but whole duplicates of current records
	GCWritten map[int]bool // C07: keys written through the traffic connection during the enclosing pass (so far, incl. in flight)
	Kind2  string     // second life: how it was killed
	Ops2   int        // second life: operations issued
}

type crashExec struct {
	x        *seqExec
	prop     string
	thorough bool
	snaps    []*snapshot
	evCount  int64
	maxSnaps int
	preGC    []Alt // C07: per key the model state when the pass started (single alternative expected)
	preGCAlts [][]Alt
	gcSeen   bool
	preSize  map[string]int64 // C07: data file sizes when the pass started
	stale    map[string]bool  // C07: files written below their old size and not truncated yet
	dupPass  bool // C07: the running pass is the one of the overflow template (distinct keys, no traffic)
	cases    int64
	dcases   map[string]bool
	// C07: client writes placed inside the pass (second connection)
	trafOps  []Op
	trafNext int
	trafReq  bool
	trafBusy bool
	trafKey  int
	// C07: clean shutdown started during the pass; the process exits when Close returns
	closeAt  int
	gcEvN    int
	closeReq bool
	closing  bool
}

func faultLabel(ev *simrt.FSEvent) string {
	return "crash-before-" + simrt.FSKindName(ev.Kind) + ":" + fileClass(ev.Path)
}

func (c *crashExec) issuedNow() [][]issued {
	x := c.x
	out := make([][]issued, len(x.m.Keys))
	for k, km := range x.m.Keys {
		for _, w := range km.Writes {
			out[k] = append(out[k], issued{ID: w.ID, Val: w.Val, Flag: w.Flag, Tomb: w.Tomb})
		}
	}
	for _, op := range []*Op{x.inflight, x.inflightT} {
		if op == nil {
			continue
		}
		switch op.Kind {
		case "set":
			out[op.K] = append(out[op.K], issued{ID: op.ID, Val: makeValue(op.V, op.vid()), Flag: op.Flag})
		case "del":
			out[op.K] = append(out[op.K], issued{ID: op.ID, Tomb: true})
		case "incr":
			out[op.K] = append(out[op.K], issued{ID: op.ID, Incr: true, Flag: flagIncr})
		}
	}
	return out
}

func (c *crashExec) take(ev *simrt.FSEvent, torn int) { c.takeL(ev, torn, "") }

// stalePrefix classifies a violation seen after a kill in the stale-tail state. The recorded
// findings (KF-C07-stale-tail-*) need a stale tail that holds a superseded record, a record of a
// deleted key, or a record cut by a write of another size. In the pass of the overflow template every
// key was written once, nothing was deleted, all records have one size and the kill falls between
// writes: the tail holds whole duplicates of current records only, the findings cannot explain a
// failure there, and the violation keeps a prefix no recorded finding matches.
func (s *snapshot) stalePrefix() string {
	if s.DupTail {
		return "stale-dup-tail/"
	}
	return "stale-tail/"
}

func (c *crashExec) takeL(ev *simrt.FSEvent, torn int, forced string) {
	x := c.x
	stale := len(c.stale) > 0
	if c.prop == "C07" && x.g != nil && x.g.H != nil && len(x.g.H.VerifStaleTail()) > 0 {
		stale = true // a file is being rewritten in place and not yet truncated to its write head
	}
	if torn >= 0 && c.preSize != nil && ev.Off >= 0 && ev.Off < c.preSize[ev.Path] {
		stale = true // this very write is an in-place relocation, partially applied
	}
	if len(c.snaps) >= c.maxSnaps {
		return
	}
	d := mkWorldDir()
	if err := copyTree(x.sim.Dir, d); err != nil {
		os.RemoveAll(d)
		return
	}
	label := faultLabel(ev)
	if torn >= 0 {
		switch {
		case torn%256 == 0:
			label = "torn-data-write@256"
		default:
			label = "torn-data-write-unaligned"
		}
	}
	if forced != "" {
		label = forced
	}
	s := &snapshot{Dir: d, Seq: ev.Seq, Kind: label, Torn: torn, OpID: x.curOp, InGC: x.inGC || forced != "", Issued: c.issuedNow(), PreGC: c.preGCAlts, Stale: stale,
		DupTail: stale && torn < 0 && c.dupPass && x.inGC}
	if len(x.gcWritten) > 0 {
		s.GCWritten = map[int]bool{}
		for k := range x.gcWritten {
			s.GCWritten[k] = true
		}
	}
	c.snaps = append(c.snaps, s)
	x.out.fault(label)
}

func (c *crashExec) hook(g *Gen, ev *simrt.FSEvent) {
	x := c.x
	if c.prop == "C07" && !(x.inGC && (ev.Tag == "gc" || c.trafOps != nil || c.closing)) {
		return
	}
	if c.prop == "C07" && ev.Tag == "gc" {
		c.placeInPass(g, ev)
	}
	c.evCount++
	if os.Getenv("VERIF_DEBUG") != "" {
		fmt.Fprintf(os.Stderr, "FSEV #%d %s %s off=%d len=%d task=%d op=%d\n", ev.Seq, simrt.FSKindName(ev.Kind), filepath.Base(ev.Path), ev.Off, len(ev.Data), ev.Task, x.curOp)
	}
	pick := c.thorough
	if !pick {
		pick = g.W.Choose(simrt.StreamFault, 6) == 1
	}
	if !pick {
		c.trackStale(ev)
		return
	}
	c.take(ev, -1)
	defer c.trackStale(ev)
	if ev.Kind == simrt.FSWrite && strings.HasSuffix(ev.Path, ".data") && len(ev.Data) > 1 {
		n := len(ev.Data)
		cuts := map[int]bool{}
		for _, k := range []int{1, recHdr - 1, recHdr + 1} {
			if k < n {
				cuts[k] = true
			}
		}
		for k := 256; k < n; k += 256 {
			cuts[k] = true
		}
		cuts[1+int(uint64(ev.Seq)*2654435761%uint64(n-1))] = true
		var list []int
		for k := range cuts {
			list = append(list, k)
		}
		sort.Ints(list)
		if !c.thorough && len(list) > 2 {
			i := g.W.Choose(simrt.StreamFault, len(list))
			j := g.W.Choose(simrt.StreamFault, len(list))
			list = []int{list[i], list[j]}
			sort.Ints(list)
		}
		for _, k := range list {
			if err := ev.WritePrefix(k); err != nil {
				break
			}
			c.take(ev, k)
		}
	}
}

// trackStale follows the "stale tail" state of in-place rewritten files during a pass (C07).
func (c *crashExec) trackStale(ev *simrt.FSEvent) {
	if c.prop != "C07" || c.preSize == nil || !strings.HasSuffix(ev.Path, ".data") {
		return
	}
	switch ev.Kind {
	case simrt.FSWrite:
		if ev.Off >= 0 && ev.Off < c.preSize[ev.Path] {
			c.stale[ev.Path] = true
		}
	case simrt.FSTruncate, simrt.FSRemove:
		delete(c.stale, ev.Path)
	}
}

func runCrash(plan *Plan, tape *simrt.Tape) *Outcome {
	c := &crashExec{prop: plan.Prop, dcases: map[string]bool{}}
	c.thorough = plan.Extra["thorough"] == 1
	c.maxSnaps = 40
	if c.thorough {
		c.maxSnaps = 600
	}
	out := runSeqHooked(plan, tape, func(x *seqExec) {
		c.x = x
		x.fsHook = c.hook
		x.noFinalRestart = true
		if plan.Prop == "C07" {
			x.gcHold = func() bool { return c.closing }
			x.gcHook = func(phase string, op Op, begin, end int) {
				if phase == "before" {
					c.preGCAlts = nil
					for _, km := range x.m.Keys {
						c.preGCAlts = append(c.preGCAlts, append([]Alt(nil), km.Alts...))
					}
					c.gcSeen = true
					c.startInPass(op)
					c.preSize = map[string]int64{}
					c.stale = map[string]bool{}
					for name, sz := range listFiles(x.sim.Dir) {
						if strings.HasSuffix(name, ".data") {
							c.preSize[filepath.Join(x.sim.Dir, name)] = sz
						}
					}
				}
			}
		}
	}, func(x *seqExec) {
		defer func() {
			for _, s := range c.snaps {
				os.RemoveAll(s.Dir)
			}
		}()
		if x.viol != nil {
			return
		}
		// a violation that is an instance of a recorded known finding must not hide a different
		// one in a later snapshot of the same world: remember it and keep evaluating
		var known *Violation
		for _, s := range c.snaps {
			c.recover(s)
			if x.viol != nil {
				if matchKnown(x.viol, plan) != "" {
					if known == nil {
						known = x.viol
					}
					x.out.probe("known-finding-instances")
					x.viol = nil
					continue
				}
				return
			}
		}
		if known != nil {
			x.viol = known
		}
		nt := len(c.snaps) > 0
		x.nontrivial = &nt
	})
	out.Cases = c.cases
	out.DistinctCases = int64(len(c.dcases))
	for k := range c.dcases {
		out.CaseClasses = append(out.CaseClasses, k)
	}
	sort.Strings(out.CaseClasses)
	out.Probes["fs-boundaries-seen"] += c.evCount
	return out
}

type durableRec struct {
	Chunk int
	Rec   refRecord
	Val   []byte
}

// durableView scans the snapshot's data files of one bucket with the independent scanner.
func (c *crashExec) durableView(dir string) (byKey map[string][]durableRec, partial bool, partialWhere string) {
	x := c.x
	byKey = map[string][]durableRec{}
	ents, _ := os.ReadDir(dir)
	var names []string
	for _, e := range ents {
		if strings.HasSuffix(e.Name(), ".data") {
			names = append(names, e.Name())
		}
	}
	sort.Strings(names)
	for _, n := range names {
		data, err := os.ReadFile(filepath.Join(dir, n))
		if err != nil {
			continue
		}
		sc := refScanBytes(data, 250, int(x.plan.Cfg.BodyMax)+65536)
		if sc.PartialEnd {
			partial = true
			partialWhere = n
		}
		for _, r := range sc.Recs {
			v, ok := storedValue(r)
			if !ok {
				continue
			}
			byKey[string(r.Key)] = append(byKey[string(r.Key)], durableRec{Chunk: chunkOfName(n), Rec: r, Val: append([]byte(nil), v...)})
		}
	}
	return
}

// recover opens the store on the snapshot directory and reads every key back. For C06, in a
// fraction of the snapshots, the recovered process then goes on (gen == 1): a few more writes,
// flushes and hint dumps, and a *second* kill (at a drawn file-system event of the continuation,
// possibly tearing a data write, or at its end), followed by a second recovery that is checked
// against everything issued in both lives (gen == 2, extra = the writes of the second life).
func (c *crashExec) recover(s *snapshot) { c.recoverGen(s, 1, nil) }

func (c *crashExec) recoverGen(s *snapshot, gen int, extra [][]issued) {
	x := c.x
	plan := x.plan
	c.cases++
	if x.viol == nil {
		defer func() {
			if v := x.viol; v != nil && c.prop == "C07" && s.InGC && s.Stale && !strings.HasPrefix(v.Sub, "stale-") {
				v.Sub = s.stalePrefix() + v.Sub
			}
		}()
	}
	sim2 := NewSim(plan.Cfg, s.Dir, x.sim.Tape)
	sim2.Cfg.Background = false
	issuedAll := s.Issued
	if extra != nil {
		issuedAll = make([][]issued, len(s.Issued))
		for k := range s.Issued {
			issuedAll[k] = append(append([]issued(nil), s.Issued[k]...), extra[k]...)
		}
	}
	// what is durable at the kill, per bucket (scanned before recovery touches the files)
	partial := false
	partialWhere := ""
	durable := map[string][]durableRec{}
	for _, b := range plan.Cfg.Served {
		d, p, pw := c.durableView(sim2.bucketDir(b))
		for k, v := range d {
			durable[k] = v
		}
		if p {
			partial = true
			partialWhere = pw
		}
	}
	rr := NewRng(plan.Seed ^ uint64(s.Seq)*0x9e3779b97f4a7c15 ^ uint64(s.Torn+7)*0x51ed27)
	second := gen == 1 && c.prop == "C06" && !s.InGC && rr.Bool(1, 3)
	var issued2 [][]issued
	killed2 := ""
	type result struct {
		hit   bool
		val   []byte
		flag  uint64
		err   string
		meta  string
	}
	results := make([]result, len(plan.Keys))
	done := false
	budget := false
	g, res := sim2.Run(func(g *Gen) {
		cl := g.NewConn()
		for k, key := range plan.Keys {
			r := cl.Do(cmdGet(string(key)))
			switch {
			case r.Budget:
				budget = true
			case r.Malformed != "" || r.Closed || r.NoReply:
				results[k].err = "protocol: " + r.String()
			case r.Status != "END":
				results[k].err = r.Status + " " + r.Msg
			case len(r.Items) == 1:
				results[k].hit = true
				results[k].val = r.Items[0].Bytes
				results[k].flag = r.Items[0].Flag
			}
		}
		done = true
		if second && !budget {
			c.secondLife(g, sim2, cl, rr, &issued2, &killed2)
		}
	})
	x.out.Steps += sim2.Steps
	x.out.SimNS += sim2.SimNS
	if budget {
		x.out.Inconclusive = "reply-step-budget"
		return
	}
	desc := fmt.Sprintf("crash point: fs event #%d (%s, torn=%d) during op #%d", s.Seq, s.Kind, s.Torn, s.OpID)
	if gen == 2 {
		desc = fmt.Sprintf("second crash (%s) after recovery from fs event #%d (%s, torn=%d) of op #%d and %d further operations", s.Kind2, s.Seq, s.Kind, s.Torn, s.OpID, s.Ops2)
	}
	refused := g.OpenErr != nil || (res.Status == simrt.StatusFatal && !done)
	c.dcases[fmt.Sprintf("%s/%d/%v/%d", s.Kind, len(durable), partial, s.Torn%256)] = true
	if os.Getenv("VERIF_DEBUG") != "" {
		fmt.Fprintf(os.Stderr, "SNAP seq=%d kind=%s torn=%d files=%v refused=%v status=%s\n", s.Seq, s.Kind, s.Torn, listFiles(s.Dir), refused, res.String())
		for k, v := range durable {
			for _, d := range v {
				fmt.Fprintf(os.Stderr, "   durable %q file %d off %d ver %d len %d\n", trunc(k, 20), d.Chunk, d.Rec.Off, d.Rec.Ver, len(d.Val))
			}
		}
	}
	if refused {
		msg := res.Msg
		if g.OpenErr != nil {
			msg = g.OpenErr.Error()
		}
		if partial {
			x.out.probe("refused-with-partial")
			return
		}
		sub := ""
		if s.Stale {
			sub = s.stalePrefix()
		}
		x.failSub("R-crash-refused-without-partial", sub, fmt.Sprintf("%s: the store refused to start (%s) although no data file ends in a partially written record", desc, trunc(msg, 300)))
		return
	}
	if done && second && res.Status == simrt.StatusKilled {
		// the second life was killed where the harness decided
	} else if res.Status != simrt.StatusDone || !done {
		if res.Status == simrt.StatusStepCap {
			x.out.Inconclusive = "stepcap-recovery"
			return
		}
		if done && second {
			desc += " (in the second life, after a successful recovery)"
		}
		x.failSub("R-crash-recovery-"+simrt.StatusName(res.Status), "", fmt.Sprintf("%s: recovery ended with %s", desc, res.String()+"\n"+trunc(res.Stack, 1200)))
		return
	}
	if partial {
		x.out.probe("opened-despite-partial:" + fileClass(partialWhere))
	}
	for k, key := range plan.Keys {
		km := x.m.Keys[k]
		if km.Unserved {
			continue
		}
		r := results[k]
		recs := durable[string(key)]
		var newest *durableRec
		if len(recs) > 0 {
			newest = &recs[len(recs)-1]
		}
		kd := fmt.Sprintf("%s: key k%d %q", desc, k, trunc(string(key), 30))
		if c.prop == "C07" && s.InGC && s.GCWritten[k] {
			// written during the pass: outside C07's quantifier ("every key that was not written
			// during the GC"); the kill oracle of C06 applies to it
			x.out.probe("c07-key-written-during-pass-checked-as-c06")
			kd += " (written during the pass)"
		} else if c.prop == "C07" && s.InGC {
			c.checkPreGC(s, kd, k, r.hit, r.val, r.flag, r.err)
			if x.viol != nil {
				if s.Stale {
					x.viol.Sub = s.stalePrefix() + x.viol.Sub
				}
				return
			}
			continue
		}
		if r.err != "" {
			if newest != nil && newest.Rec.Ver > 0 {
				x.failSub("R-crash-durable-unreadable", "error", fmt.Sprintf("%s: read failed (%s) although an intact durable record (file %d offset %d, ver %d) exists", kd, trunc(r.err, 200), newest.Chunk, newest.Rec.Off, newest.Rec.Ver))
				return
			}
			continue
		}
		// position of the newest durable record in the issue order of this key
		nd := -1
		if newest != nil && newest.Rec.Ver > 0 {
			for i, w := range issuedAll[k] {
				if !w.Tomb && !w.Incr && bytes.Equal(w.Val, newest.Val) {
					nd = i
				}
				if w.Incr && newest.Rec.Flag == flagIncr && isNumber(newest.Val) && nd < 0 {
					nd = i
				}
			}
		}
		if !r.hit {
			laterDelete := false
			for i, w := range issuedAll[k] {
				if w.Tomb && i > nd {
					laterDelete = true
				}
			}
			if newest != nil && newest.Rec.Ver > 0 && laterDelete {
				// the key was deleted after the durable write: "deleted" is at least as new
				x.out.probe("crash-miss-by-later-delete")
				continue
			}
			if newest != nil && newest.Rec.Ver > 0 {
				x.failSub("R-crash-durable-unreadable", "miss", fmt.Sprintf("%s: miss although the newest intact durable record (file %d offset %d, ver %d, %d bytes) is a live value", kd, newest.Chunk, newest.Rec.Off, newest.Rec.Ver, len(newest.Val)))
				return
			}
			continue
		}
		// a value was served: it must be a value really issued for this key ...
		okIssued := false
		for _, w := range issuedAll[k] {
			if !w.Tomb && !w.Incr && bytes.Equal(w.Val, r.val) {
				okIssued = true
			}
			if w.Incr {
				okIssued = okIssued || isNumber(r.val)
			}
		}
		if !okIssued {
			rule := "R-crash-wrong-value"
			for j, other := range issuedAll {
				if j == k {
					continue
				}
				for _, w := range other {
					if !w.Tomb && len(w.Val) > 0 && bytes.Equal(w.Val, r.val) {
						rule = "R-crash-otherkey-value"
					}
				}
			}
			x.failSub(rule, "", fmt.Sprintf("%s: served %d bytes %q that were never written for this key", kd, len(r.val), trunc(string(r.val), 40)))
			return
		}
		// ... and not older than the newest durable one
		if newest == nil {
			x.failSub("R-crash-wrong-value", "nothing-durable", fmt.Sprintf("%s: served %d bytes although no intact record of the key is on disk", kd, len(r.val)))
			return
		}
		if newest.Rec.Ver < 0 {
			x.failSub("R-crash-older-than-durable", "deleted", fmt.Sprintf("%s: served a value although the newest intact durable record is a tombstone (file %d offset %d)", kd, newest.Chunk, newest.Rec.Off))
			return
		}
		if !bytes.Equal(newest.Val, r.val) {
			x.failSub("R-crash-older-than-durable", "", fmt.Sprintf("%s: served %q but the newest intact durable record (file %d offset %d ver %d) holds %q", kd, trunc(string(r.val), 30), newest.Chunk, newest.Rec.Off, newest.Rec.Ver, trunc(string(newest.Val), 30)))
			return
		}
	}
	if second && issued2 != nil && x.viol == nil {
		s2 := *s
		s2.Kind2 = killed2
		for _, l := range issued2 {
			s2.Ops2 += len(l)
		}
		x.out.fault("second-" + killed2[:strings.IndexAny(killed2+"@:", "@:")])
		x.out.probe("second-crash-recovered")
		c.recoverGen(&s2, 2, issued2)
		if x.viol != nil && !strings.HasPrefix(x.viol.Sub, "second-crash") {
			x.viol.Sub = "second-crash/" + x.viol.Sub
		}
	}
}

// secondLife runs in the recovered process: a few more operations, then a second kill.
func (c *crashExec) secondLife(g *Gen, sim2 *Sim, cl *PClient, rr *Rng, pIssued *[][]issued, pHow *string) {
	x := c.x
	plan := x.plan
	issued2 := make([][]issued, len(plan.Keys))
	*pIssued = issued2
	*pHow = "kill-at-end"
	var served []int
	for k, km := range x.m.Keys {
		if !km.Unserved && !km.Collide {
			served = append(served, k)
		}
	}
	if len(served) == 0 {
		return
	}
	// kill at the n-th file-system mutation of the second life (0 = at its end, nothing torn)
	killAt := int64(0)
	if rr.Bool(1, 2) {
		killAt = int64(rr.Range(1, 5))
	}
	tear := rr.Bool(1, 2)
	var seen int64
	sim2.OnFS = func(g *Gen, ev *simrt.FSEvent) {
		seen++
		if killAt == 0 || seen != killAt {
			return
		}
		*pHow = "kill-before-" + simrt.FSKindName(ev.Kind) + ":" + fileClass(ev.Path)
		if tear && ev.Kind == simrt.FSWrite && strings.HasSuffix(ev.Path, ".data") && len(ev.Data) > 1 {
			cut := []int{1, recHdr - 1, recHdr + 1, 256, len(ev.Data) / 2}[rr.Intn(5)]
			if cut >= len(ev.Data) {
				cut = len(ev.Data) - 1
			}
			ev.WritePrefix(cut)
			*pHow = fmt.Sprintf("kill-inside-data-write@%d", cut)
		}
		g.W.Exit(simrt.StatusKilled, "second kill")
	}
	n := rr.Range(2, 9)
	for i := 0; i < n; i++ {
		k := served[rr.Intn(len(served))]
		key := string(plan.Keys[k])
		id := 700000 + i
		switch rr.Weighted([]int{50, 10, 22, 6, 12}) {
		case 0:
			spec := ValSpec{Class: rr.Pick(VConst, VText, VRandom), Len: rr.Pick(10, 10, 40, 200, 230, 700), Seed: uint32(rr.U64())}
			if int64(spec.Len) > plan.Cfg.BodyMax {
				spec.Len = int(plan.Cfg.BodyMax)
			}
			val := makeValue(spec, id)
			issued2[k] = append(issued2[k], issued{ID: id, Val: val})
			cl.Do(cmdSet("set", key, 0, 0, val, false))
		case 1:
			issued2[k] = append(issued2[k], issued{ID: id, Tomb: true})
			cl.Do(cmdDelete(key))
		case 2:
			g.W.WaitIdle()
			g.H.VerifFlush(true)
			g.W.WaitIdle()
		case 3:
			g.H.VerifDumpHints()
		case 4:
			g.W.Advance(time.Duration(rr.Pick(1, 2, 6, 61)) * time.Second)
		}
		x.out.probe("second-life-op")
	}
	if rr.Bool(2, 3) {
		g.W.WaitIdle()
		g.H.VerifFlush(true)
		g.W.WaitIdle()
	}
}

// placeInPass (C07) runs in the pass's task, before one of its disk mutations is performed.
// (1) A pre-generated client write may be placed here through a second connection: at a data
// write (the pass has decided to keep the record and has not repointed the tree yet) the pass is
// parked until the write is acknowledged, at any other mutation the write is merely released and
// the scheduler interleaves it with the pass. (2) A clean shutdown may be started here.
func (c *crashExec) placeInPass(g *Gen, ev *simrt.FSEvent) {
	x := c.x
	c.gcEvN++
	if c.closeAt > 0 && c.gcEvN == c.closeAt {
		c.closeReq = true
	}
	if c.trafOps == nil || c.trafBusy || c.trafReq || c.trafNext >= len(c.trafOps) {
		return
	}
	if g.W.Choose(simrt.StreamFault, 3) != 1 {
		return
	}
	c.trafKey = -1
	dataWrite := ev.Kind == simrt.FSWrite && strings.HasSuffix(ev.Path, ".data") && len(ev.Data) >= recHdr
	if dataWrite {
		if rec, ok := refDecodeAt(ev.Data, 0, 250, 1<<22); ok {
			for i, key := range x.plan.Keys {
				if string(key) == string(rec.Key) {
					c.trafKey = i
				}
			}
		}
	}
	c.trafReq = true
	if dataWrite {
		c.trafBusy = true
		g.W.WaitCond("gc-parked-for-traffic", func() bool { return !c.trafReq })
		c.trafBusy = false
		x.out.probe("c07-write-placed-at-relocation-write")
	} else {
		x.out.probe("c07-write-released-at:" + simrt.FSKindName(ev.Kind) + ":" + fileClass(ev.Path))
	}
}

// startTraffic / startCloser are called when a pass of a C07 world is about to be requested.
func (c *crashExec) startInPass(op Op) {
	x := c.x
	g := x.g
	w := g.W
	c.trafOps, c.trafNext, c.trafReq, c.trafBusy, c.trafKey = nil, 0, false, false, -1
	c.closeAt, c.gcEvN, c.closeReq, c.closing = op.CloseAt, 0, false, false
	x.gcWritten = nil
	c.dupPass = false
	if x.plan.Extra["overflowTemplate"] == 1 && len(op.Traffic) == 0 {
		for _, o := range x.plan.Ops {
			if o.Kind == "gc" {
				c.dupPass = o.ID == op.ID // the template's pass is the first of the plan
				break
			}
		}
	}
	if len(op.Traffic) > 0 {
		c.trafOps = op.Traffic
		x.gcWritten = map[int]bool{}
		w.GoHarness("gc-traffic", func() {
			var cl *PClient
			for {
				w.WaitCond("traffic-wait", func() bool { return c.trafReq || !x.inGC })
				if cl == nil && x.inGC {
					cl = g.NewConn() // (a scheduling point)
				}
				if !c.trafReq || !x.inGC {
					// the pass is over (the scheduler may have postponed this task for long): the main
					// client is active again, nothing may be written beside it
					c.trafReq = false
					return
				}
				c.trafficOp(cl, c.trafOps[c.trafNext]) // marks the write in flight before its first scheduling point
				c.trafNext++
				c.trafReq = false
			}
		})
	}
	if op.CloseAt > 0 {
		w.GoHarness("closer", func() {
			w.WaitCond("close-wait", func() bool { return c.closeReq || !x.inGC })
			if !c.closeReq || x.viol != nil || !x.inGC {
				// (pass already over: the main client has gone on, a shutdown now would be a
				// different history than the one the snapshot's bookkeeping describes)
				return
			}
			x.out.fault("shutdown-during-gc")
			c.closing = true
			x.closingInGC = true
			g.H.Close()
			if x.inGC {
				x.out.probe("exit-after-shutdown-while-pass-still-running")
			} else {
				x.out.probe("pass-finished-before-shutdown-returned")
			}
			c.takeL(&simrt.FSEvent{Seq: w.FSSeq(), Off: -1}, -1, "exit-after-shutdown-during-gc")
			x.exited = true
			w.Exit(simrt.StatusKilled, "exit after shutdown during GC")
		})
	}
}

// trafficOp performs one client write on the traffic connection and applies it to the model
// (the main client is idle while a pass runs, so model updates stay sequential).
func (c *crashExec) trafficOp(cl *PClient, op Op) {
	x := c.x
	k := op.K % len(x.plan.Keys)
	if op.At == 1 && c.trafKey >= 0 {
		k = c.trafKey // the key whose record the pass is relocating right now
	}
	km := x.m.Keys[k]
	if km.Unserved || km.Collide || x.tainted[k] {
		return
	}
	op.K = k
	x.gcWritten[k] = true
	x.inflightT = &op
	defer func() { x.inflightT = nil }()
	t0 := x.nowUnix()
	key := x.key(k)
	switch op.Kind {
	case "set":
		val := makeValue(op.V, op.vid())
		r := cl.Do(cmdSet("set", key, 0, 0, val, false))
		if r.Budget {
			x.fail("INCONCLUSIVE", "reply-step-budget")
			return
		}
		if r.Status != "STORED" {
			x.failSub("R-status", replySub("set", r), fmt.Sprintf("%s (placed inside the pass) answered %s", op, r))
			return
		}
		km.Set(x.m, op.ID, val, 0, 0, t0)
		x.writes++
	case "del":
		r := cl.Do(cmdDelete(key))
		if r.Budget {
			x.fail("INCONCLUSIVE", "reply-step-budget")
			return
		}
		if r.Status != "DELETED" && r.Status != "NOT_FOUND" {
			x.failSub("R-status", replySub("delete", r), fmt.Sprintf("%s (placed inside the pass) answered %s", op, r))
			return
		}
		if rule, msg := km.Delete(op.ID, t0, r.Status == "DELETED"); rule != "" {
			x.fail(rule, fmt.Sprintf("%s (placed inside the pass): %s", op, msg))
			return
		}
	}
	t1 := x.nowUnix()
	for i := range km.Alts {
		if km.Alts[i].WriteID == op.ID {
			km.Alts[i].TSHi = t1
		}
	}
	x.out.probe("c07-client-" + op.Kind + "-during-pass")
}

func isNumber(b []byte) bool {
	if len(b) == 0 || len(b) > 22 {
		return false
	}
	for i, c := range b {
		if !(c >= '0' && c <= '9') && !(i == 0 && c == '-') {
			return false
		}
	}
	return true
}

// checkPreGC (C07): a key that was not written during the pass reads exactly what it held
// before the pass started.
func (c *crashExec) checkPreGC(s *snapshot, kd string, k int, hit bool, val []byte, flag uint64, errs string) {
	x := c.x
	alts := s.PreGC[k]
	if errs != "" {
		for _, a := range alts {
			if a.live() {
				x.failSub("R-crash-durable-unreadable", "gc-error", fmt.Sprintf("%s: read failed (%s); before the pass the key held %s", kd, trunc(errs, 200), describeAlts(alts)))
				return
			}
		}
		return
	}
	for _, a := range alts {
		if !hit && !a.live() {
			return
		}
		if hit && a.live() && bytes.Equal(a.Val, val) && uint64(a.Flag) == flag {
			return
		}
	}
	rule := "R-gc-crash-changed-read"
	sub := "value"
	if !hit {
		sub = "lost"
	} else {
		live := false
		for _, a := range alts {
			if a.live() {
				live = true
			}
		}
		if !live {
			rule = "R-gc-crash-resurrect"
			sub = ""
		} else {
			for _, w := range x.m.Keys[k].Writes {
				if !w.Tomb && bytes.Equal(w.Val, val) {
					sub = "older-version"
				}
			}
		}
	}
	got := "miss"
	if hit {
		got = fmt.Sprintf("%d bytes %q flag %d", len(val), trunc(string(val), 30), flag)
	}
	x.failSub(rule, sub, fmt.Sprintf("%s: after recovery the key reads %s; before the pass it held %s", kd, got, describeAlts(alts)))
}

func describeAlts(alts []Alt) string {
	km := KeyModel{Alts: alts}
	return km.describe()
}

func genCrashPlan(prop string, seed uint64, tier string) *Plan {
	base := "C02"
	if prop == "C07" {
		base = "C07"
	}
	p := genSeqPlan(base, seed, tier)
	p.Prop = prop
	r := NewRng(seed ^ 0xc0ffee)
	c := &p.Cfg
	if c.TreeHeight > 3 {
		c.TreeHeight = 3
	}
	if len(c.Served) > 2 {
		c.Served = c.Served[:2]
	}
	c.BufIOCap = r.Pick(64, 256, 1024, 1<<16, 1<<20)
	c.Background = r.Bool(1, 2)
	c.FuncYield = false
	if c.BodyMax > 16384 {
		c.BodyMax = 16384
	}
	c.normalize()
	if len(p.Ops) > 40 {
		p.Ops = p.Ops[:40]
	}
	// keys must be in served buckets (served set may have shrunk)
	for i, k := range p.Keys {
		if !c.served(bucketOf(c, k)) && c.NumBucket > 1 {
			_ = i
		}
	}
	for i := range p.Ops {
		if p.Ops[i].Kind == "set" && p.Ops[i].V.Len > int(c.BodyMax) {
			p.Ops[i].V.Len = int(c.BodyMax)
		}
		if p.Ops[i].Kind == "gc" && !c.served(p.Ops[i].GCBucket) {
			p.Ops[i].GCBucket = c.Served[0]
		}
	}
	if prop == "C07" {
		// what else happens during a pass: nothing (2/5), client writes through a second
		// connection (2/5), a clean shutdown started in the middle of it (1/5)
		for i := range p.Ops {
			op := &p.Ops[i]
			if op.Kind != "gc" || op.Pretend {
				continue
			}
			switch r.Pick(0, 0, 1, 1, 2) {
			case 1:
				for j := r.Range(1, 6); j > 0; j-- {
					t := Op{ID: 800000 + op.ID*10 + j, Kind: "set", K: r.Intn(len(p.Keys)), At: r.Pick(0, 1, 1),
						V: ValSpec{Class: r.Pick(VConst, VText, VRandom), Len: r.Pick(8, 10, 40, 200, 230, 600), Seed: uint32(r.U64())}}
					if int64(t.V.Len) > c.BodyMax {
						t.V.Len = int(c.BodyMax)
					}
					if r.Bool(1, 4) {
						t.Kind = "del"
					}
					op.Traffic = append(op.Traffic, t)
				}
			case 2:
				op.CloseAt = r.Pick(1, 2, 3, 5, 8, 13, 21, 40)
			}
		}
	}
	if tier == "thorough" {
		p.Extra["thorough"] = 1
	}
	return p
}

func init() {
	engines["C06"] = engine{genCrashPlan, runCrash}
	engines["C07"] = engine{genCrashPlan, runCrash}
}
