package main

import (
	"bufio"
	"encoding/json"
	"flag"
	"fmt"
	"os"
	"os/exec"
	"path/filepath"
	"sort"
	"strings"
	"sync"
	"time"
)

// The driver fans out worker processes over world indexes, aggregates their outcomes into the
// evidence file, minimises violations in a subprocess and prints the verdict lines.

type agg struct {
	mu            sync.Mutex
	worlds        int64
	nontrivial    int64
	sigs          map[string]bool
	inconclusive  map[string]int64
	steps         int64
	simS          float64
	decisions     int64
	preemptions   int64
	fs            map[string]int64
	faults        map[string]int64
	probes        map[string]int64
	cases, dcases int64
	gens, ops     int64
	maxTasks      int
	viols         []*ReplayFile
	samples       []interface{}
	crashes       []string
	infra         []string
	knownHits     map[string]int64
	caseClasses   map[string]bool
	// instances of recorded known findings do not end the exploration: they are counted, a few
	// per class are kept for the report
	unknown   int
	knownSeen map[string]int64
	knownKept map[string]int
}

func newAgg() *agg {
	return &agg{sigs: map[string]bool{}, inconclusive: map[string]int64{}, fs: map[string]int64{}, faults: map[string]int64{},
		probes: map[string]int64{}, knownHits: map[string]int64{}, caseClasses: map[string]bool{},
		knownSeen: map[string]int64{}, knownKept: map[string]int{}}
}

func (a *agg) add(o *Outcome) {
	a.mu.Lock()
	defer a.mu.Unlock()
	a.worlds++
	if o.Inconclusive != "" {
		a.inconclusive[o.Inconclusive]++
	}
	if o.Nontrivial && !a.sigs[o.Sig] {
		a.sigs[o.Sig] = true
		a.nontrivial++
	}
	a.steps += o.Steps
	a.simS += float64(o.SimNS) / 1e9
	a.decisions += o.SchedDecisions
	a.preemptions += o.Preemptions
	a.cases += o.Cases
	a.dcases += o.DistinctCases
	for _, c := range o.CaseClasses {
		a.caseClasses[c] = true
	}
	a.gens += int64(o.Gens)
	a.ops += int64(o.OpsRun)
	if o.MaxTasks > a.maxTasks {
		a.maxTasks = o.MaxTasks
	}
	for k, v := range o.FS {
		a.fs[k] += v
	}
	for k, v := range o.Faults {
		a.faults[k] += v
	}
	for k, v := range o.Probes {
		a.probes[k] += v
	}
	for _, k := range o.Known {
		a.knownHits[k]++
	}
	if o.Sample != nil && len(a.samples) < 4 && o.Nontrivial {
		a.samples = append(a.samples, o.Sample)
	}
}

func driverMain(args []string) {
	fs := flag.NewFlagSet("driver", flag.ExitOnError)
	prop := fs.String("prop", "C01", "property")
	tier := fs.String("tier", "quick", "quick|thorough")
	seed := fs.Uint64("seed", 1, "VERIF_SEED")
	budget := fs.Int("budget", 60, "wall seconds for exploration")
	workers := fs.Int("workers", 16, "worker processes")
	batch := fs.Int("batch", 40, "worlds per worker process")
	evidence := fs.String("evidence", "", "evidence file to write")
	replays := fs.String("replays", "", "directory for replay files")
	minBudget := fs.Int("minbudget", 45, "seconds per minimisation")
	maxWorlds := fs.Int("maxworlds", 0, "stop after this many worlds (0 = time only)")
	fs.Parse(args)
	if _, ok := engines[*prop]; !ok {
		fmt.Fprintln(os.Stderr, "no engine for", *prop)
		os.Exit(2)
	}
	self, _ := os.Executable()
	t0 := time.Now()
	deadline := t0.Add(time.Duration(*budget) * time.Second)
	a := newAgg()
	var next int64
	var nmu sync.Mutex
	takeBatch := func() (int, bool) {
		nmu.Lock()
		defer nmu.Unlock()
		if time.Now().After(deadline) {
			return 0, false
		}
		if *maxWorlds > 0 && int(next) >= *maxWorlds {
			return 0, false
		}
		f := int(next)
		next += int64(*batch)
		return f, true
	}
	var wg sync.WaitGroup
	for w := 0; w < *workers; w++ {
		wg.Add(1)
		go func() {
			defer wg.Done()
			for {
				from, ok := takeBatch()
				if !ok {
					return
				}
				runWorker(self, *prop, *tier, *seed, from, *batch, deadline, a)
				a.mu.Lock()
				stop := a.unknown >= 40 || len(a.infra) > 5
				a.mu.Unlock()
				if stop {
					return
				}
			}
		}()
	}
	wg.Wait()
	exploreWall := time.Since(t0).Seconds()

	// verdicts
	exit := 0
	var lines []string
	if len(a.infra) > 5 || (a.worlds == 0) {
		fmt.Printf("INFRASTRUCTURE: %v\n", a.infra)
		writeEvidence(*evidence, *prop, *tier, *seed, a, exploreWall, time.Since(t0).Seconds(), 0, nil)
		os.Exit(2)
	}
	byClass := map[string][]*ReplayFile{}
	for _, rf := range a.viols {
		byClass[rf.Violation.Class()] = append(byClass[rf.Violation.Class()], rf)
	}
	classes := make([]string, 0, len(byClass))
	for c := range byClass {
		classes = append(classes, c)
	}
	sort.Strings(classes)
	os.MkdirAll(*replays, 0755)
	nViol := 0
	var vsum []map[string]interface{}
	reportedKnown := map[string]bool{}
	for _, c := range classes {
		rfs := byClass[c]
		sort.Slice(rfs, func(i, j int) bool { return planSize(rfs[i].Plan) < planSize(rfs[j].Plan) })
		// several instances of one class may be different findings (known vs new): look at up to 3
		reported := map[string]bool{}
		for idx, rf := range rfs {
			if idx >= 3 {
				break
			}
			name := fmt.Sprintf("%s-%s-%d.json", *prop, strings.TrimPrefix(rf.Violation.Rule, "R-"), rf.Seed)
			raw := filepath.Join(*replays, "raw-"+name)
			min := filepath.Join(*replays, name)
			rf.Trace = describe(rf)
			b, _ := json.MarshalIndent(rf, "", " ")
			os.WriteFile(raw, b, 0644)
			final := raw
			if rf.Violation.Rule != "R-worker-crash" && matchKnown(rf.Violation, rf.Plan) == "" {
				cmd := exec.Command(self, "minimise", "-budget", fmt.Sprint(*minBudget), raw, min)
				cmd.Env = os.Environ()
				outb, err := runWithTimeout(cmd, time.Duration(*minBudget+30)*time.Second)
				if err == nil {
					final = min
					os.Remove(raw)
					var rf2 ReplayFile
					if bb, e := os.ReadFile(min); e == nil && json.Unmarshal(bb, &rf2) == nil {
						rf = &rf2
					}
				} else {
					fmt.Printf("note: minimisation of %s failed (%v): %s\n", name, err, trunc(string(outb), 300))
				}
			}
			known := matchKnown(rf.Violation, rf.Plan)
			if known != "" {
				if !reported[known] && !reportedKnown[known] {
					reported[known] = true
					reportedKnown[known] = true
					lines = append(lines, fmt.Sprintf("KNOWN-FINDING: property=%s %s (replay=%s)", *prop, known, final))
					a.knownHits[known] += int64(len(rfs))
					if a.knownSeen[known] > a.knownHits[known] {
						a.knownHits[known] = a.knownSeen[known]
					}
				} else {
					os.Remove(final)
				}
				continue
			}
			nViol++
			exit = 1
			lines = append(lines, fmt.Sprintf("VIOLATION property=%s replay=%s", *prop, final))
			lines = append(lines, fmt.Sprintf("  rule=%s seed=%d instances=%d: %s", rf.Violation.Rule, rf.Seed, len(rfs), trunc(rf.Violation.Msg, 600)))
			vsum = append(vsum, map[string]interface{}{"rule": rf.Violation.Rule, "seed": rf.Seed, "replay": final, "instances": len(rfs), "msg": trunc(rf.Violation.Msg, 400)})
			break
		}
	}
	for _, c := range a.crashes {
		lines = append(lines, "note: "+c)
	}
	writeEvidence(*evidence, *prop, *tier, *seed, a, exploreWall, time.Since(t0).Seconds(), nViol, vsum)
	fmt.Printf("%s %s: worlds=%d nontrivial-distinct=%d steps=%d sim=%s inconclusive=%v wall=%.1fs\n", *prop, *tier, a.worlds, a.nontrivial, a.steps,
		fmt.Sprintf("%.0fs", a.simS), a.inconclusive, time.Since(t0).Seconds())
	for _, l := range lines {
		fmt.Println(l)
	}
	os.Exit(exit)
}

func planSize(p *Plan) int {
	n := len(p.Ops)
	for _, c := range p.Clients {
		n += len(c)
	}
	return n
}

func runWithTimeout(cmd *exec.Cmd, d time.Duration) ([]byte, error) {
	var buf strings.Builder
	cmd.Stdout = &buf
	cmd.Stderr = &buf
	if err := cmd.Start(); err != nil {
		return nil, err
	}
	done := make(chan error, 1)
	go func() { done <- cmd.Wait() }()
	select {
	case err := <-done:
		return []byte(buf.String()), err
	case <-time.After(d):
		cmd.Process.Kill()
		<-done
		return []byte(buf.String()), fmt.Errorf("timeout")
	}
}

// runWorker runs one worker process over a batch of world indexes. If the process dies (cgo
// abort, SIGSEGV) the world it was running is re-run alone twice; a reproducible death is a
// violation (R-worker-crash), anything else is infrastructure trouble.
func runWorker(self, prop, tier string, seed uint64, from, n int, deadline time.Time, a *agg) {
	cmd := exec.Command(self, "worker", "-prop", prop, "-tier", tier, "-seed", fmt.Sprint(seed), "-from", fmt.Sprint(from), "-n", fmt.Sprint(n),
		"-deadline", fmt.Sprint(deadline.Unix()))
	cmd.Env = os.Environ()
	stdout, _ := cmd.StdoutPipe()
	var stderr strings.Builder
	cmd.Stderr = &stderr
	if err := cmd.Start(); err != nil {
		a.mu.Lock()
		a.infra = append(a.infra, "start worker: "+err.Error())
		a.mu.Unlock()
		return
	}
	// watchdog: a worker that outlives the deadline by far is killed
	killed := false
	timer := time.AfterFunc(time.Until(deadline)+240*time.Second, func() { killed = true; cmd.Process.Kill() })
	defer timer.Stop()
	sc := bufio.NewScanner(stdout)
	sc.Buffer(make([]byte, 1<<20), 1<<28)
	lastStart := ""
	ended := false
	for sc.Scan() {
		line := sc.Text()
		switch {
		case strings.HasPrefix(line, "START "):
			lastStart = line[6:]
		case strings.HasPrefix(line, "OUT "):
			var o Outcome
			if err := json.Unmarshal([]byte(line[4:]), &o); err == nil {
				a.add(&o)
			}
			lastStart = ""
		case strings.HasPrefix(line, "VIOL "):
			rest := line[5:]
			i := strings.IndexByte(rest, ' ')
			var rf ReplayFile
			if err := json.Unmarshal([]byte(rest[i+1:]), &rf); err == nil {
				known := matchKnown(rf.Violation, rf.Plan)
				a.mu.Lock()
				if known != "" {
					a.knownSeen[known]++
					if cl := rf.Violation.Class(); a.knownKept[cl] < 6 {
						a.knownKept[cl]++
						a.viols = append(a.viols, &rf)
					}
				} else {
					a.unknown++
					a.viols = append(a.viols, &rf)
				}
				a.mu.Unlock()
			}
		case line == "WORKER-END":
			ended = true
		}
	}
	err := cmd.Wait()
	if ended && err == nil {
		return
	}
	if killed {
		a.mu.Lock()
		a.infra = append(a.infra, fmt.Sprintf("worker from=%d killed by watchdog (last world %s)", from, lastStart))
		a.mu.Unlock()
		return
	}
	msg := fmt.Sprintf("worker from=%d died: %v; last world %q; stderr tail: %s", from, err, lastStart, tail(stderr.String(), 600))
	if lastStart == "" {
		a.mu.Lock()
		a.infra = append(a.infra, msg)
		a.mu.Unlock()
		return
	}
	var idx int
	var ws uint64
	fmt.Sscanf(lastStart, "%d %d", &idx, &ws)
	died := 0
	for k := 0; k < 2; k++ {
		c2 := exec.Command(self, "worker", "-prop", prop, "-tier", tier, "-seed", fmt.Sprint(seed), "-from", fmt.Sprint(idx), "-n", "1")
		c2.Env = os.Environ()
		outb, e2 := runWithTimeout(c2, 300*time.Second)
		if e2 != nil && !strings.Contains(string(outb), "WORKER-END") {
			died++
		}
	}
	a.mu.Lock()
	if died == 2 {
		e := engines[prop]
		plan := e.gen(prop, ws, tier)
		a.viols = append(a.viols, &ReplayFile{Property: prop, Seed: ws, Plan: plan,
			Violation: &Violation{Prop: prop, Rule: "R-worker-crash", Msg: msg}})
	} else {
		a.crashes = append(a.crashes, "non-reproducible worker death: "+msg)
		a.infra = append(a.infra, msg)
	}
	a.mu.Unlock()
	// continue with the rest of the batch
	if idx+1 < from+n && time.Now().Before(deadline) {
		runWorker(self, prop, tier, seed, idx+1, from+n-idx-1, deadline, a)
	}
}

func tail(s string, n int) string {
	if len(s) > n {
		return s[len(s)-n:]
	}
	return s
}

var propRules = map[string]string{}

func writeEvidence(path, prop, tier string, seed uint64, a *agg, exploreWall, wall float64, nViol int, vsum []map[string]interface{}) {
	if path == "" {
		return
	}
	level := "exploration"
	if prop == "C06" || prop == "C07" || prop == "C09" {
		level = "fault_enumeration"
	}
	evals := a.worlds
	distinct := a.nontrivial
	if level == "fault_enumeration" && a.cases > 0 {
		evals = a.cases
		distinct = int64(len(a.caseClasses))
	}
	hours := exploreWall / 3600
	if hours <= 0 {
		hours = 1e-9
	}
	cov := map[string]interface{}{
		"evaluations":          evals,
		"distinct_nontrivial":  distinct,
		"rule":                 ruleText(prop),
		"samples":              a.samples,
		"worlds":               a.worlds,
		"worlds_per_hour":      int64(float64(a.worlds) / hours),
		"seeds_per_hour":       int64(float64(a.worlds) / hours),
		"process_generations":  a.gens,
		"operations_executed":  a.ops,
		"scheduler_steps":      a.steps,
		"scheduling_decisions_with_choice": a.decisions,
		"preemptions":          a.preemptions,
		"simulated_time_s":     a.simS,
		"distinct_schedule_and_plan_signatures": len(a.sigs),
		"max_tasks_in_a_world": a.maxTasks,
		"fs_events_by_kind":    a.fs,
		"faults_fired":         a.faults,
		"probes":               a.probes,
		"inconclusive":         a.inconclusive,
		"known_findings_hit":   a.knownHits,
		"violations":           vsum,
		"worker_notes":         a.crashes,
		"exhaustive":           false,
		"real_code":            "store, cmem, quicklz (C and Go), gobeansdb.StorageClient, memcache request/response parsing and ServerConn.Serve, ReqLimiter, Flusher and HintDumper loops (sync/go/time/os-mutation/blocking-channel call sites redirected to the simulator by source rewriting)",
		"stubbed":              "TCP listener and accept loop, signal handling, Main(), flag/YAML/ZooKeeper config loading, HTTP admin, log files; goroutine scheduler, mutexes, wait groups, timers and the clock are simulated; the disk is a real tmpfs directory observed through the seam",
	}
	if len(a.samples) == 0 {
		cov["samples"] = []interface{}{map[string]interface{}{"note": "no non-trivial world produced a sample"}}
	}
	ev := map[string]interface{}{
		"property_id": prop,
		"tier":        tier,
		"seed":        seed,
		"level":       level,
		"coverage":    cov,
		"assumptions": assumptions(prop),
		"wall_s":      wall,
		"violations":  nViol,
	}
	b, _ := json.MarshalIndent(ev, "", " ")
	os.MkdirAll(filepath.Dir(path), 0755)
	os.WriteFile(path, b, 0644)
}
