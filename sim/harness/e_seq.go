package main

import (
	"runtime"
	"fmt"
	"os"
	"path/filepath"
	"sort"
	"strconv"
	"strings"
	"time"

	"github.com/douban/gobeansdb/cmem"
	"github.com/douban/gobeansdb/config"
	"github.com/douban/gobeansdb/quicklz"
	simrt "github.com/douban/gobeansdb/zzsimrt"
)

// Sequential engine: one client speaking the text protocol to the real server loop + storage
// client + store, with environment events (flush, flusher tick, hint dump, clock advance),
// clean restarts with index-file deletion, and GC through the public entry point.
// Serves C01, C02, C03, C08 (recomputation oracle), C10, C13, C15, C18.

type seqExec struct {
	plan *Plan
	out  *Outcome
	sim  *Sim
	m    *Model
	g    *Gen
	c    *PClient
	viol *Violation
	gen  int
	curOp int

	writes, hits, misses, rotations int
	gcRuns, gcReleased, gcKept      int
	restartsDone                   int
	dataEvents                     int
	lastHead                       map[int]int
	appendLog                      []appendRec // C09/C15: every data write seen at the disk seam
	inGC                           bool
	gcEvents                       []gcEvent
	fsHook                         func(g *Gen, ev *simrt.FSEvent)
	inflight                       *Op
	inflightT                      *Op          // C07: write in flight on the traffic connection during a pass
	gcWritten                      map[int]bool // C07: keys written by the traffic connection during the current pass
	exited                         bool         // the harness ended the process (shutdown during GC)
	closingInGC                    bool         // C07: a clean shutdown was started while a pass was running
	gcCancelAt, gcDataWrites       int          // C03: cancel placed before the n-th relocation write of the current pass
	gcBucket                       int
	gcCancelled                    bool
	gcTraffic                      []Op // C13 T4: operations to be placed inside the current pass
	gcHold                         func() bool  // C07: the main client stays parked (a shutdown is in progress)
	nontrivial                     *bool
	noFinalRestart                 bool
	gcHook                         func(phase string, op Op, begin, end int)
	finalHook                      func()
	opKey                          int          // key index the current check is about (-1 = none)
	tainted                        map[int]bool // keys of hash-collision groups hit by a recorded known finding
	knownViol                      *Violation
}

type appendRec struct {
	Path string
	Off  int64
	Len  int
}

type gcEvent struct {
	Kind int
	Path string
	Off  int64
	Len  int
}

func (x *seqExec) fail(rule, msg string) {
	if x.viol == nil {
		x.viol = &Violation{Prop: x.plan.Prop, Rule: rule, Msg: msg, OpID: x.curOp, Gen: x.gen}
	}
}

func (x *seqExec) failSub(rule, sub, msg string) {
	if x.viol == nil {
		x.viol = &Violation{Prop: x.plan.Prop, Rule: rule, Sub: sub, Msg: msg, OpID: x.curOp, Gen: x.gen}
	}
}

func replySub(kind string, r Reply) string {
	s := kind + "->" + r.Status
	if r.Msg != "" && (r.Status == "SERVER_ERROR" || r.Status == "CLIENT_ERROR") {
		s += " " + trunc(r.Msg, 30)
	}
	return s
}

// absorbKnownCollision: a violation observed on a key of a forced hash-collision group is
// classified ("collide:" + mechanism); if it is an instance of a recorded known finding the
// whole group is taken out of the comparison and the world continues, so that the known
// finding cannot hide a different violation.
func (x *seqExec) absorbKnownCollision() bool {
	v := x.viol
	if v == nil || x.opKey < 0 || x.opKey >= len(x.m.Keys) || !x.m.Keys[x.opKey].Collide {
		return false
	}
	if x.plan.Extra["benignCollide"] == 1 && x.plan.Extra["autoMerge"] == 1 {
		// a benign world in which the hint dumper may start a hint merge on its own: the one
		// recorded finding that can act there is KF-C13-collide-automerge
		if !strings.HasPrefix(v.Sub, "collide-automerge:") {
			v.Sub = "collide-automerge:" + v.Sub
		}
	} else if x.plan.Extra["benignCollide"] == 1 {
		// no recorded finding can act in a benign collision world (see genSeqPlan)
		if !strings.HasPrefix(v.Sub, "collide-benign:") {
			v.Sub = "collide-benign:" + v.Sub
		}
		x.out.probe("benign-collision-world-violation")
		return false
	}
	if !strings.HasPrefix(v.Sub, "collide:") && !strings.HasPrefix(v.Sub, "collide-automerge:") {
		v.Sub = "collide:" + v.Sub
	}
	if matchKnown(v, x.plan) == "" {
		return false
	}
	if x.knownViol == nil {
		x.knownViol = v
	}
	x.out.probe("known-finding-instances")
	if x.tainted == nil {
		x.tainted = map[int]bool{}
	}
	for _, grp := range x.plan.Groups {
		in := false
		for _, ki := range grp {
			if ki == x.opKey {
				in = true
			}
		}
		if in {
			for _, ki := range grp {
				x.tainted[ki] = true
			}
		}
	}
	x.viol = nil
	return true
}

func (x *seqExec) key(i int) string { return string(x.plan.Keys[i]) }

func (x *seqExec) nowUnix() int64 { return x.g.W.Now().Unix() }

func runSeq(plan *Plan, tape *simrt.Tape) *Outcome { return runSeqHooked(plan, tape, nil, nil) }

// runSeqHooked runs the sequential executor; setup may install hooks on the executor before the
// first generation, post runs after the last generation (crash / corruption engines evaluate
// their snapshots there).
func runSeqHooked(plan *Plan, tape *simrt.Tape, setup func(x *seqExec), post func(x *seqExec)) *Outcome {
	pl := *plan // (a route change at a restart replaces Cfg.Served: keep the caller's plan as generated)
	plan = &pl
	out := &Outcome{Seed: plan.Seed, Prop: plan.Prop}
	dir := mkWorldDir()
	defer os.RemoveAll(dir)
	sim := NewSim(plan.Cfg, dir, tape)
	x := &seqExec{plan: plan, out: out, sim: sim, lastHead: map[int]int{}}
	x.m = NewModel(plan.Keys, plan.Cfg.CheckVHash)
	installCollisions(plan)
	defer func() { hashOverride = nil }()
	for i, k := range plan.Keys {
		if !plan.Cfg.served(bucketOf(&plan.Cfg, k)) {
			x.m.Keys[i].Unserved = true
		}
	}
	for _, grp := range plan.Groups {
		for _, ki := range grp {
			x.m.Keys[ki].Collide = true
		}
	}
	sim.OnFS = x.onFS
	if setup != nil {
		setup(x)
	}

	i := 0
	finished := false
	var restartOp *Op
	for !finished && x.viol == nil {
		closing := false
		g, res := sim.Run(func(g *Gen) {
			x.g = g
			x.c = g.NewConn()
			if x.gen > 0 {
				x.verifyAll("after-restart", true)
				if x.viol != nil {
					return
				}
			}
			for i < len(plan.Ops) {
				op := plan.Ops[i]
				i++
				x.curOp = op.ID
				if op.Kind == "restart" {
					restartOp = &op
					if op.Kill {
						// unclean stop that loses nothing: everything is flushed, then the process
						// just ends (no hint / tree dump of the final state; they are replayed or
						// rebuilt at the next open)
						g.W.WaitIdle()
						g.H.VerifFlush(true)
						g.W.WaitIdle()
						x.out.fault("kill-after-flush")
						return
					}
					closing = true
					g.H.Close()
					return
				}
				x.opKey = -1
				x.exec(op)
				out.OpsRun++
				if x.viol != nil && !x.absorbKnownCollision() {
					return
				}
			}
			x.curOp = 0
			x.verifyAll("final", false)
			if x.viol != nil {
				return
			}
			// quiesce: a forced flush only covers the head file; rotated files are flushed by their
			// own goroutines, which the scheduler may have postponed until now
			g.W.WaitIdle()
			g.H.VerifFlush(true)
			g.W.WaitIdle()
			x.verifyAll("final-flushed", false)
			if x.viol != nil {
				return
			}
			g.W.WaitIdle()
			x.checkDataFiles()
			if x.viol != nil {
				if fsTrace {
					fmt.Fprintf(os.Stderr, "LIVE at final check: %v unflushed=%d\n", g.W.LiveTasks(), g.H.VerifUnflushed(plan.Cfg.Served[0]))
				}
				return
			}
			if x.finalHook != nil {
				x.finalHook()
				if x.viol != nil {
					return
				}
			}
			closing = true
			g.H.Close()
			finished = true
		})
		_ = g
		if g.OpenErr != nil && x.viol == nil {
			x.fail("R-open-failed", "NewHStore failed after a clean shutdown: "+g.OpenErr.Error())
		}
		switch res.Status {
		case simrt.StatusDone:
		case simrt.StatusStepCap:
			if x.viol == nil {
				out.Inconclusive = "stepcap"
			}
			finished = true
		case simrt.StatusFatal, simrt.StatusPanic, simrt.StatusDeadlock:
			if x.viol == nil {
				rule := "R-" + simrt.StatusName(res.Status)
				if closing || x.closingInGC {
					rule = "R-close-failed"
				}
				x.fail(rule, fmt.Sprintf("process ended with %s (closing=%v): %s %v\n%s", simrt.StatusName(res.Status), closing, res.Msg, res.Blocked, trunc(res.Stack, 1500)))
			}
		}
		if x.viol != nil || out.Inconclusive != "" || x.exited {
			break
		}
		if !finished {
			x.applyRestart(restartOp)
		} else if plan.Prop != "C01" && plan.Prop != "C15" && !x.noFinalRestart {
			// one more clean reopen with all index files intact
			finished = false
			restartOp = &Op{Kind: "restart"}
			x.applyRestart(restartOp)
			i = len(plan.Ops)
			plan2done := false
			g2, res2 := sim.Run(func(g *Gen) {
				x.g = g
				x.c = g.NewConn()
				x.verifyAll("after-final-restart", true)
				plan2done = true
			})
			if g2.OpenErr != nil && x.viol == nil {
				x.fail("R-open-failed", "NewHStore failed after a clean shutdown: "+g2.OpenErr.Error())
			}
			if res2.Status != simrt.StatusDone && x.viol == nil {
				if res2.Status == simrt.StatusStepCap {
					out.Inconclusive = "stepcap"
				} else {
					x.fail("R-"+simrt.StatusName(res2.Status), "final reopen: "+res2.String())
				}
			}
			_ = plan2done
			finished = true
		}
	}
	if post != nil {
		post(x)
	}
	if x.viol != nil && x.viol.Rule == "INCONCLUSIVE" {
		out.Inconclusive = x.viol.Msg
		x.viol = nil
	}
	if x.viol == nil && x.knownViol != nil {
		x.viol = x.knownViol
	}
	out.absorb(sim)
	out.Violation = x.viol
	out.Nontrivial = x.writes >= 3 && x.hits >= 2
	if x.nontrivial != nil {
		out.Nontrivial = *x.nontrivial
	}
	switch plan.Prop {
	case "C02":
		out.Nontrivial = out.Nontrivial && x.restartsDone >= 1
	case "C03", "C18":
		out.Nontrivial = x.gcRuns >= 1 && x.gcReleased >= 1 && x.gcKept >= 1
	}
	out.Sig = fnvStr(cfgClass(&plan.Cfg), opKinds(plan.Ops), fmt.Sprint(sim.SchedHash))
	out.Tapes = tape.Snapshot()
	out.Sample = seqSample(plan, x)
	return out
}

func seqSample(plan *Plan, x *seqExec) interface{} {
	var ops []string
	for i, o := range plan.Ops {
		if i >= 40 {
			ops = append(ops, fmt.Sprintf("... %d more", len(plan.Ops)-i))
			break
		}
		ops = append(ops, o.String())
	}
	return map[string]interface{}{
		"seed": plan.Seed, "config": cfgClass(&plan.Cfg), "keys": len(plan.Keys), "ops": ops,
		"generations": x.sim.Gens, "writes": x.writes, "hits": x.hits, "misses": x.misses, "gc_runs": x.gcRuns,
		"steps": x.sim.Steps, "preemptions": x.sim.Preemptions, "fs_events": x.sim.FS,
	}
}

// onFS observes every disk mutation (C15 routing, C17/C18 inventories, probes).
func (x *seqExec) onFS(g *Gen, ev *simrt.FSEvent) {
	if ev.Kind == simrt.FSWrite && strings.HasSuffix(ev.Path, ".data") {
		x.dataEvents++
		x.checkRouting(ev)
	}
	if x.inGC && ev.Tag == "gc" && len(x.gcTraffic) > 0 && x.plan.Prop == "C13" {
		// C13 template T4: client operations (and a hint-dumper tick) placed at the first disk
		// mutation of the pass, i.e. after it has begun; the pass waits meanwhile
		ops := x.gcTraffic
		x.gcTraffic = nil
		save := x.inflight
		for _, t := range ops {
			x.exec(t)
			if x.viol != nil {
				break
			}
		}
		x.inflight = save
		x.out.probe("c13-ops-placed-inside-pass")
	}
	if x.inGC && ev.Tag == "gc" {
		x.gcEvents = append(x.gcEvents, gcEvent{ev.Kind, ev.Path, ev.Off, len(ev.Data)})
		if x.gcCancelAt > 0 && ev.Kind == simrt.FSWrite && strings.HasSuffix(ev.Path, ".data") {
			x.gcDataWrites++
			if x.gcDataWrites == x.gcCancelAt {
				// a cancel request placed in the middle of a source file
				gcCancel(g, x.plan.Cfg.GCWeb, x.gcBucket)
				x.gcCancelled = true
				x.out.probe("gc-cancel-placed-at-relocation-write")
			}
		}
	}
	if x.fsHook != nil {
		x.fsHook(g, ev)
	}
}

// checkRouting (C15): every data append must land in the directory named by the leading hex
// digits of the reference key hash of the record's key.
func (x *seqExec) checkRouting(ev *simrt.FSEvent) {
	if hashOverride != nil {
		return
	}
	d := ev.Data
	// a write(2) may carry several records or a fragment; decode only records that start
	// at a 256 boundary of the file and are complete inside this write
	if ev.Off < 0 || ev.Off%256 != 0 {
		return
	}
	off := 0
	for off+recHdr <= len(d) {
		r, ok := refDecodeAt(d, off, 250, int(x.plan.Cfg.BodyMax)+1024)
		if !ok {
			return
		}
		b := bucketOf(&x.plan.Cfg, r.Key)
		want := x.sim.bucketDir(b)
		if filepath.Dir(ev.Path) != want {
			x.fail("R-route-dir", fmt.Sprintf("record of key %q (bucket %x by reference hash) written to %s", trunc(string(r.Key), 40), b, ev.Path))
			return
		}
		if !x.plan.Cfg.served(b) {
			x.fail("R-route-unserved-stored", fmt.Sprintf("record of key %q for unserved bucket %x written to %s", trunc(string(r.Key), 40), b, ev.Path))
			return
		}
		x.out.probe("routed-append-checked")
		off += int(r.Size)
	}
}

func (x *seqExec) exec(op Op) {
	g := x.g
	x.inflight = &op
	defer func() { x.inflight = nil }()
	switch op.Kind {
	case "set":
		x.doSet(op)
	case "del":
		x.doDel(op)
	case "incr":
		x.doIncr(op)
	case "get":
		x.doGet(op.K)
	case "mget":
		x.doMGet(op.Ks)
	case "meta":
		x.doMeta(op.K, false)
	case "meta2":
		x.doMeta(op.K, true)
	case "flush":
		g.H.VerifFlush(true)
	case "tick":
		g.W.Advance(time.Duration(x.plan.Cfg.FlushInterval+1) * time.Second)
		if !x.plan.Cfg.Background {
			g.H.VerifFlush(false)
		}
		g.W.WaitIdle()
	case "dump":
		g.H.VerifDumpHints()
	case "merge":
		// hint merge (never started automatically by the shipped code): produces *.idx.m, fills
		// the collision table with same-hash groups, later lookups go through the merged index
		if len(x.plan.Cfg.Served) > 0 {
			b := x.plan.Cfg.Served[op.K%len(x.plan.Cfg.Served)]
			g.H.VerifFlush(true)
			g.H.VerifDumpHints()
			if err := g.H.VerifMergeHints(b); err == nil {
				x.out.probe("hint-merge-done")
			} else {
				x.out.probe("hint-merge-error")
			}
		}
	case "advance":
		// keep record timestamps inside the uint32 range of the on-disk format (and the
		// simulated clock inside int64 nanoseconds)
		if x.nowUnix()+op.D/1000 < 4200000000 {
			g.W.Advance(time.Duration(op.D) * time.Millisecond)
			g.W.WaitIdle()
		}
	case "gc":
		x.doGC(op)
	case "reroute":
		x.doReroute(op)
	case "list":
		x.doListing(uint64(op.Delta))
	}
}

func (x *seqExec) reply(cmd []byte) Reply {
	r := x.c.Do(cmd)
	if r.Budget {
		x.fail("INCONCLUSIVE", "reply-step-budget")
		return r
	}
	if r.Malformed != "" {
		x.fail("R-proto-malformed-reply", r.String())
	} else if r.Closed {
		x.fail("R-proto-no-reply", "connection closed instead of a reply to "+strconv.Quote(trunc(string(cmd), 60)))
	} else if r.NoReply {
		x.fail("R-proto-no-reply", "no reply to "+strconv.Quote(trunc(string(cmd), 60)))
	}
	return r
}

func (x *seqExec) doSet(op Op) {
	km := x.m.Keys[op.K]
	x.opKey = op.K
	if x.tainted[op.K] {
		x.c.Do(cmdSet("set", x.key(op.K), uint64(op.Flag), int64(op.Rev), makeValue(op.V, op.vid()), false))
		return
	}
	val := makeValue(op.V, op.vid())
	verb := op.Verb
	if verb == "" {
		verb = "set"
	}
	var cmd []byte
	if verb == "cas" {
		cmd = []byte(fmt.Sprintf("cas %s %d %d %d 12345\r\n", x.key(op.K), op.Flag, op.Rev, len(val)))
		cmd = append(cmd, val...)
		cmd = append(cmd, "\r\n"...)
	} else {
		cmd = cmdSet(verb, x.key(op.K), uint64(op.Flag), int64(op.Rev), val, false)
	}
	t0 := x.nowUnix()
	r := x.reply(cmd)
	t1 := x.nowUnix()
	if x.viol != nil {
		return
	}
	if r.Status == "NOT_STORED" && int64(len(val)) > x.plan.Cfg.BodyBig {
		x.out.probe("oom-refusal")
		return
	}
	if r.Status != "STORED" || len(r.Items) > 0 {
		x.failSub("R-status", replySub("set", r), fmt.Sprintf("%s answered %s", op, r))
		return
	}
	if km.Unserved {
		return
	}
	km.Set(x.m, op.ID, val, op.Flag, op.Rev, t0)
	for i := range km.Alts {
		if km.Alts[i].WriteID == op.ID {
			km.Alts[i].TSHi = t1
		}
	}
	x.writes++
}

func (x *seqExec) doDel(op Op) {
	km := x.m.Keys[op.K]
	x.opKey = op.K
	if x.tainted[op.K] {
		x.c.Do(cmdDelete(x.key(op.K)))
		return
	}
	t0 := x.nowUnix()
	r := x.reply(cmdDelete(x.key(op.K)))
	t1 := x.nowUnix()
	if x.viol != nil {
		return
	}
	if r.Status != "DELETED" && r.Status != "NOT_FOUND" {
		x.failSub("R-status", replySub("delete", r), fmt.Sprintf("%s answered %s", op, r))
		return
	}
	if km.Unserved {
		return
	}
	if km.Collide {
		// colliding keys: only what a get returns is specified (C13); the reply to a delete may
		// reflect the other key sharing the tree slot. The key itself is not live afterwards.
		live := false
		for _, a := range km.Alts {
			if a.live() {
				live = true
			}
		}
		if live {
			km.Alts = []Alt{{Ver: -1, WriteID: op.ID, DataVer: -1}}
			km.Writes = append(km.Writes, WriteRec{ID: op.ID, Ver: -1, Tomb: true})
			x.writes++
		}
		return
	}
	if rule, msg := km.Delete(op.ID, t0, r.Status == "DELETED"); rule != "" {
		x.fail(rule, fmt.Sprintf("%s: %s", op, msg))
		return
	}
	for i := range km.Alts {
		if km.Alts[i].WriteID == op.ID {
			km.Alts[i].TSHi = t1
		}
	}
	if r.Status == "DELETED" {
		x.writes++
	}
}

func (x *seqExec) doIncr(op Op) {
	km := x.m.Keys[op.K]
	x.opKey = op.K
	if x.tainted[op.K] {
		x.c.Do(cmdIncr(x.key(op.K), op.Delta))
		return
	}
	t0 := x.nowUnix()
	r := x.reply(cmdIncr(x.key(op.K), op.Delta))
	t1 := x.nowUnix()
	if x.viol != nil {
		return
	}
	n, err := strconv.ParseInt(r.Status, 10, 64)
	if err != nil || r.Msg != "" {
		x.failSub("R-status", replySub("incr", r), fmt.Sprintf("%s answered %s", op, r))
		return
	}
	if km.Unserved {
		if n != 0 {
			x.fail("R-route-unserved-stored", fmt.Sprintf("%s on an unserved bucket answered %d", op, n))
		}
		return
	}
	hadTomb := false
	for _, a := range km.Alts {
		if a.Ver < 0 {
			hadTomb = true
		}
	}
	if rule, msg := km.Incr(op.ID, op.Delta, t0, n); rule != "" {
		x.fail(rule, fmt.Sprintf("%s: %s", op, msg))
		return
	}
	if hadTomb {
		x.out.probe("incr-on-tombstone")
	}
	for i := range km.Alts {
		if km.Alts[i].WriteID == op.ID {
			km.Alts[i].TSHi = t1
		}
	}
}

func (x *seqExec) doGet(k int) {
	km := x.m.Keys[k]
	x.opKey = k
	if x.tainted[k] {
		x.c.Do(cmdGet(x.key(k)))
		return
	}
	r := x.reply(cmdGet(x.key(k)))
	if x.viol != nil {
		return
	}
	if r.Status != "END" || len(r.Items) > 1 {
		x.failSub("R-status", replySub("get", r), fmt.Sprintf("get k%d answered %s", k, r))
		return
	}
	x.observeGet(km, k, r.Items)
}

func (x *seqExec) observeGet(km *KeyModel, k int, items []RItem) {
	x.opKey = k
	if x.tainted[k] {
		return
	}
	var it *RItem
	for i := range items {
		if items[i].Key == x.key(k) {
			it = &items[i]
		}
	}
	if km.Unserved {
		if it != nil {
			x.fail("R-route-unserved-stored", fmt.Sprintf("get k%d on an unserved bucket returned a value", k))
		}
		return
	}
	var rule, msg string
	if it == nil {
		rule, msg = km.ObserveGet(false, nil, 0)
		x.misses++
	} else {
		rule, msg = km.ObserveGet(true, it.Bytes, it.Flag)
		x.hits++
		if rule == "R-value-unknown" {
			// another key's value?
			for j, other := range x.m.Keys {
				if j == k {
					continue
				}
				for _, w := range other.Writes {
					if !w.Tomb && len(w.Val) > 0 && string(w.Val) == string(it.Bytes) {
						rule = "R-value-otherkey"
						msg = fmt.Sprintf("get returned the value written to key k%d by #%d; %s", j, w.ID, msg)
					}
				}
			}
		}
	}
	if rule != "" {
		x.fail(rule, fmt.Sprintf("get k%d %q: %s", k, trunc(x.key(k), 30), msg))
	}
}

func (x *seqExec) doMGet(ks []int) {
	var names []string
	for _, k := range ks {
		names = append(names, x.key(k))
	}
	r := x.reply(cmdGet(names...))
	if x.viol != nil {
		return
	}
	if r.Status != "END" {
		x.failSub("R-status", replySub("mget", r), fmt.Sprintf("mget answered %s", r))
		return
	}
	seen := map[string]bool{}
	for _, it := range r.Items {
		ok := false
		for _, n := range names {
			if n == it.Key {
				ok = true
			}
		}
		if !ok {
			x.fail("R-proto-extra-reply", fmt.Sprintf("mget returned key %q that was not requested", trunc(it.Key, 40)))
			return
		}
		if seen[it.Key] {
			x.fail("R-proto-extra-reply", fmt.Sprintf("mget returned key %q twice", trunc(it.Key, 40)))
			return
		}
		seen[it.Key] = true
	}
	done := map[int]bool{}
	for _, k := range ks {
		if done[k] {
			continue
		}
		done[k] = true
		x.observeGet(x.m.Keys[k], k, r.Items)
		if x.viol != nil {
			return
		}
	}
}

func (x *seqExec) doMeta(k int, extended bool) {
	km := x.m.Keys[k]
	q := "?"
	if extended {
		q = "??"
	}
	if km.Collide {
		return // versions / tombstone visibility of colliding keys are unspecified
	}
	name := q + x.key(k)
	if len(name) > 250 {
		// the protocol limits every key token of a get to 250 bytes: no meta-get exists for this key
		x.out.probe("meta-key-too-long-skipped")
		return
	}
	r := x.reply(cmdGet(name))
	if x.viol != nil {
		return
	}
	if r.Status != "END" || len(r.Items) > 1 {
		x.failSub("R-status", replySub("meta", r), fmt.Sprintf("meta-get k%d answered %s", k, r))
		return
	}
	if km.Unserved {
		if len(r.Items) != 0 {
			x.fail("R-route-unserved-stored", fmt.Sprintf("meta-get k%d on an unserved bucket returned %q", k, r.Items[0].Bytes))
		}
		return
	}
	if len(r.Items) == 0 {
		if rule, msg := km.ObserveMeta(false, 0, 0, 0, 0, 0, true); rule != "" {
			x.fail(rule, fmt.Sprintf("meta-get k%d: %s", k, msg))
		}
		return
	}
	it := r.Items[0]
	if it.Key != name || it.Flag != 0 {
		x.fail("R-meta", fmt.Sprintf("meta-get k%d reply item key %q flag %d", k, trunc(it.Key, 40), it.Flag))
		return
	}
	f := strings.Split(string(it.Bytes), " ")
	want := 5
	if extended {
		want = 7
	}
	if len(f) != want {
		x.fail("R-meta", fmt.Sprintf("meta-get k%d body %q has %d fields", k, it.Bytes, len(f)))
		return
	}
	var n [7]int64
	for i := range f {
		v, err := strconv.ParseInt(f[i], 10, 64)
		if err != nil {
			x.fail("R-meta", fmt.Sprintf("meta-get k%d body %q not numeric", k, it.Bytes))
			return
		}
		n[i] = v
	}
	if rule, msg := km.ObserveMeta(true, n[0], n[1], n[2], n[3], n[4], !km.Collide); rule != "" {
		x.fail(rule, fmt.Sprintf("meta-get k%d: %s", k, msg))
		return
	}
	// timestamp: within the window in which the write was processed
	for _, a := range km.Alts {
		if a.Ver != 0 && a.TSLo != 0 && (n[4] < a.TSLo-1 || n[4] > a.TSHi+1) {
			x.fail("R-meta", fmt.Sprintf("meta-get k%d timestamp %d outside [%d,%d] of write #%d", k, n[4], a.TSLo, a.TSHi, a.WriteID))
			return
		}
	}
	if extended {
		x.classifyPos(k, int(n[5]), uint32(n[6]))
	}
}

// classifyPos records where the record currently lives (probe only; positions are an
// implementation detail and are not compared).
func (x *seqExec) classifyPos(k int, chunk int, off uint32) {
	b := bucketOf(&x.plan.Cfg, x.plan.Keys[k])
	head, _, _ := x.g.H.VerifHead(b)
	path := filepath.Join(x.sim.bucketDir(b), fmt.Sprintf("%03d.data", chunk))
	var disk int64 = 0
	if st, err := os.Stat(path); err == nil {
		disk = st.Size()
	}
	switch {
	case int64(off) >= disk && chunk == head:
		x.out.probe("read-from-buffer")
	case int64(off) >= disk && chunk < head:
		x.out.probe("read-while-rotated-file-unflushed")
	case chunk == head:
		x.out.probe("read-from-flushed-head")
	default:
		x.out.probe("read-from-rotated-file")
	}
}

// verifyAll reads every key (get + meta-get) and compares with the model.
func (x *seqExec) verifyAll(phase string, afterRestart bool) {
	if afterRestart {
		x.restartsDone++
		for _, km := range x.m.Keys {
			km.Restart()
		}
	}
	save := x.curOp
	for k := range x.plan.Keys {
		x.doGet(k)
		if x.viol == nil {
			x.doMeta(k, phase == "final")
		}
		if x.viol != nil {
			v := x.viol
			if afterRestart {
				if v.Rule == "R-miss-live" || v.Rule == "R-value-stale" {
					v.Rule = "R-restart-lost-ack"
				}
			}
			v.Msg = phase + ": " + v.Msg
			if x.absorbKnownCollision() {
				continue
			}
			break
		}
	}
	x.curOp = save
}

// plantGoCompressed (C10, Go -> C direction): between two generations a record whose value was
// compressed by the repository's *Go* QuickLZ is appended (independent encoder) to the newest data
// file of the key's bucket and the bucket's index files are removed; the store must then serve
// the original bytes with the client's flags, decompressing with the C implementation.
func (x *seqExec) plantGoCompressed(seed uint32) {
	r := NewRng(uint64(seed) ^ 0x60)
	cfg := &x.plan.Cfg
	var cands []int
	for k, km := range x.m.Keys {
		if !km.Unserved && !km.Collide && len(km.Alts) == 1 {
			cands = append(cands, k)
		}
	}
	if len(cands) == 0 {
		return
	}
	k := cands[r.Intn(len(cands))]
	km := x.m.Keys[k]
	n := r.Pick(300, 1000, 5000, 10240, 10241, 30000)
	if n > int(cfg.BodyMax) {
		n = int(cfg.BodyMax)
	}
	if n < 300 {
		return
	}
	val := make([]byte, n)
	phrase := fmt.Sprintf("planted-%d-", seed)
	for i := range val {
		val[i] = phrase[i%len(phrase)]
	}
	comp := quicklz.Compress(val, 3) // level 3: the level the C implementation is compiled for (QLZ_COMPRESSION_LEVEL)
	if len(comp) >= len(val) {
		return
	}
	flag := uint32(r.Pick(0, 1, 0x20, 12345))
	ver := abs32(km.Alts[0].Ver) + 1
	b := bucketOf(cfg, km.Key)
	dir := x.sim.bucketDir(b)
	names := []string{}
	for name := range snapshotDataFiles(dir) {
		names = append(names, name)
	}
	if len(names) == 0 {
		return
	}
	sort.Strings(names)
	last := filepath.Join(dir, names[len(names)-1])
	ts := uint32(x.sim.Epoch + x.sim.elapsed/1e9)
	rec := refEncode(ts, flag|flagServerCompress, ver, km.Key, comp)
	if st, err := os.Stat(last); err != nil || st.Size()+int64(len(rec)) > cfg.DataFileMax {
		// the store itself never lets a data file grow beyond the limit (it rotates first); a
		// planted record must not create a layout the code under test cannot produce
		return
	}
	f, err := os.OpenFile(last, os.O_WRONLY|os.O_APPEND, 0644)
	if err != nil {
		return
	}
	f.Write(rec)
	f.Close()
	for _, name := range sortedKeys(listFiles(dir)) {
		switch fileClass(name) {
		case "tree", "hint", "merged":
			if filepath.Dir(filepath.Join(dir, name)) == dir {
				os.Remove(filepath.Join(dir, name))
			}
		}
	}
	id := 900000 + x.gen
	km.Alts = []Alt{{Ver: ver, Val: val, Flag: flag, WriteID: id, DataVer: ver, TSLo: int64(ts) - 1, TSHi: int64(ts) + 1}}
	km.Writes = append(km.Writes, WriteRec{ID: id, Ver: ver, Val: val, Flag: flag})
	x.out.probe("planted-go-compressed-record")
}

// applyRoute makes route the served-bucket set of the model (and of later generations).
func (x *seqExec) applyRoute(route []int) {
	x.plan.Cfg.Served = append([]int(nil), route...)
	x.sim.Cfg.Served = x.plan.Cfg.Served
	for i, k := range x.plan.Keys {
		was := x.m.Keys[i].Unserved
		now := !x.plan.Cfg.served(bucketOf(&x.plan.Cfg, k))
		x.m.Keys[i].Unserved = now
		if was != now {
			if now {
				x.out.probe("route-change:key-no-longer-served")
			} else {
				x.out.probe("route-change:key-served-again")
			}
		}
	}
}

// doReroute: a route change on the running process (HStore.ChangeRoute, what the route-reload
// admin request calls with the table read from ZooKeeper): buckets are hot-unloaded (flushed,
// closed, released after a 10 s grace period) and hot-loaded (opened from their directory).
func (x *seqExec) doReroute(op Op) {
	g := x.g
	cfg := &x.plan.Cfg
	if cfg.NumBucket <= 1 || op.Route == nil {
		return
	}
	nc := config.DBRouteConfig{NumBucket: cfg.NumBucket, BucketsStat: make([]int, cfg.NumBucket)}
	for _, b := range op.Route {
		nc.BucketsStat[b] = 1 // as RouteTable.GetDBRouteConfig builds it
	}
	g.W.WaitIdle()
	loaded, unloaded, err := g.H.ChangeRoute(nc)
	if err != nil {
		x.fail("R-route-change-failed", fmt.Sprintf("%s: ChangeRoute failed: %v", op, err))
		return
	}
	x.out.fault("hot-route-change")
	if len(loaded) > 0 {
		x.out.probe("route-change:bucket-hot-loaded")
	}
	if len(unloaded) > 0 {
		x.out.probe("route-change:bucket-hot-unloaded")
	}
	x.applyRoute(op.Route)
	// a hot-loaded bucket reopens its indexes like a restart does (tombstones may leave the index)
	for i, k := range x.plan.Keys {
		for _, b := range loaded {
			if bucketOf(cfg, k) == b {
				x.m.Keys[i].Restart()
			}
		}
	}
	x.verifyAll("after-hot-route-change", false)
}

// applyRestart deletes the drawn subset of derived index files between two generations.
func (x *seqExec) applyRestart(op *Op) {
	x.gen++
	if op == nil {
		return
	}
	if op.Route != nil && x.plan.Cfg.NumBucket > 1 {
		// route change: the next generation serves another set of buckets. A bucket that is no
		// longer served keeps its directory; its keys must miss and nothing may be stored for them.
		// A bucket that is served (again) carries whatever its directory holds.
		x.applyRoute(op.Route)
		x.out.fault("route-change-at-restart")
	}
	if x.plan.Prop == "C10" && op.DelSeed%2 == 1 && !op.Kill {
		defer x.plantGoCompressed(op.DelSeed)
	}
	r := NewRng(uint64(op.DelSeed))
	want := map[string]bool{}
	some := false
	for _, d := range op.Del {
		if d == "some" {
			some = true
		}
		want[d] = true
	}
	files := listFiles(x.sim.Dir)
	for _, name := range sortedKeys(files) {
		cl := fileClass(name)
		if strings.HasSuffix(cl, ".tmp") {
			x.out.probe("restart-with-tmp-leftover")
			continue
		}
		del := false
		switch cl {
		case "tree":
			del = want["tree"]
			if !del && want["trunc-tree"] {
				// the tree dump is cut short (a fault beyond the SIGKILL model: a dump is renamed into
				// place only after it was written completely; HTree.load has an error path for it and
				// the bucket must then rebuild the tree like for a missing dump)
				if sz := files[name]; sz > 1 {
					n := int64(r.Intn(int(sz)))
					if r.Bool(1, 3) {
						n = sz - 1 - int64(r.Intn(8))%sz
					}
					if n < 0 {
						n = 0
					}
					os.Truncate(filepath.Join(x.sim.Dir, name), n)
					x.out.fault("tree-dump-truncated")
				}
				continue
			}
		case "hint":
			del = want["hint"]
		case "merged":
			del = want["merged"]
		default:
			continue
		}
		if some {
			del = r.Bool(1, 2)
		}
		if del {
			os.Remove(filepath.Join(x.sim.Dir, name))
			x.out.fault("index-file-deleted:" + cl)
		}
	}
}

// ---------------------------------------------------------------------------------------
// GC

func (x *seqExec) doGC(op Op) {
	g := x.g
	b := op.GCBucket
	// files must be older than the age limit relative to the simulated clock
	// C03/C18 quantify over histories, not schedules: let every pending background task
	// (post-rotation flushes, dumps) finish before the pass starts
	g.W.Advance(2 * time.Second)
	g.W.WaitIdle()
	if x.plan.Prop != "C17" || op.ID%3 != 0 {
		// (C17 keeps an unflushed / empty head file in a third of its requests)
		g.H.VerifFlush(true)
		g.W.WaitIdle()
	}
	gcNow := x.nowUnix()
	bdir := x.sim.bucketDir(b)
	before := snapshotDataFiles(bdir)
	head, sizes, _ := g.H.VerifHead(b)
	_ = sizes
	x.inGC = true
	x.gcEvents = nil
	x.gcCancelAt, x.gcDataWrites, x.gcBucket, x.gcCancelled = op.CancelAt, 0, b, false
	x.gcTraffic = nil
	if x.plan.Prop == "C13" {
		x.gcTraffic = op.Traffic
	}
	if x.gcHook != nil {
		x.gcHook("before", op, 0, 0)
	}
	nTasks := g.W.NumTasks()
	g.W.TagNext = "gc"
	begin, end, err := gcRequest(g, x.plan.Cfg.GCWeb, b, op.GCStart, op.GCEnd, op.GCDays, op.Merge, op.Pretend)
	if x.plan.Cfg.GCWeb {
		x.out.probe("gc-request-via-web-handler")
	}
	g.W.TagNext = ""
	if err != nil || op.Pretend {
		g.W.WaitIdle()
		x.inGC = false
		if op.Pretend && err == nil {
			x.out.probe("gc-pretend")
		} else {
			x.out.probe("gc-refused")
		}
		after := snapshotDataFiles(bdir)
		if len(x.gcEvents) > 0 || !g.W.TasksDone("store.gcMgr.gc", nTasks) || g.W.NumTasks() != nTasks {
			x.fail("R-gc-pretend-mutated", fmt.Sprintf("%s (err=%v) caused %d disk events / spawned a pass", op, err, len(x.gcEvents)))
		} else if !sameSnapshot(before, after) && x.plan.Prop != "C17" {
			x.fail("R-gc-pretend-mutated", fmt.Sprintf("%s (err=%v) changed data files", op, err))
		}
		if err == nil {
			x.checkRange(op, begin, end, head, before, gcNow)
		}
		return
	}
	ok := g.W.WaitCondTimeout("gc-done", 2*time.Hour, func() bool {
		return g.W.TasksDone("store.gcMgr.gc", nTasks) && (x.gcHold == nil || !x.gcHold())
	})
	if os.Getenv("VERIF_DEBUG") != "" {
		fmt.Fprintf(os.Stderr, "MAIN resumes after gc wait: ok=%v step=%d hold=%v now=%v\n", ok, g.W.Steps(), x.gcHold != nil && x.gcHold(), g.W.Now())
		if !ok {
			fmt.Fprintf(os.Stderr, "live tasks: %v\n", g.W.LiveTasks())
			buf := make([]byte, 1<<20)
			fmt.Fprintf(os.Stderr, "%s\n", buf[:runtime.Stack(buf, true)])
		}
	}
	x.inGC = false
	if x.gcWritten != nil {
		g.W.WaitCond("traffic-idle", func() bool { return x.inflightT == nil })
	}
	if !ok {
		x.fail("R-gc-hang", fmt.Sprintf("%s did not finish within 2 simulated hours", op))
		return
	}
	x.gcRuns++
	if x.gcHook != nil {
		x.gcHook("after", op, begin, end)
	}
	hist := g.H.VerifGCHistory(b)
	if len(hist) > 0 {
		st := hist[len(hist)-1]
		x.gcReleased += int(st.NumReleased)
		x.gcKept += int(st.NumBefore - st.NumReleased)
		if st.Err != nil {
			x.out.probe("gc-error")
		}
		if st.NumReleasedDeleted > 0 {
			x.out.probe("gc-released-deleted")
		}
	}
	if begin == 0 {
		x.out.probe("gc-begin-0")
	} else {
		x.out.probe("gc-begin>0")
	}
	x.classifyGC(begin, end, head, before, bdir)
	if x.plan.Prop == "C17" {
		x.checkRange(op, begin, end, head, before, gcNow)
		if x.viol == nil {
			x.checkEligibility(op, begin, end, head, before, gcNow)
		}
		if x.viol != nil {
			return
		}
	}
	// a tombstone whose record was dropped stays a tombstone in memory, but an index rebuild
	// will not find it again: handled by Restart() widening.
	x.verifyAll(fmt.Sprintf("after-gc[%d,%d]", begin, end), false)
	if x.viol != nil {
		if x.viol.Rule == "R-miss-live" || x.viol.Rule == "R-value-stale" || x.viol.Rule == "R-value-unknown" || x.viol.Rule == "R-hit-deleted" {
			if x.viol.Rule == "R-hit-deleted" {
				x.viol.Rule = "R-gc-resurrect"
			} else {
				x.viol.Rule = "R-gc-changed-read"
			}
		}
		return
	}
	if (x.plan.Prop == "C18" || x.plan.Prop == "C03") && !x.gcCancelled {
		x.checkReclaimed(op, b, begin, end, before, bdir)
	}
	if x.viol == nil && x.plan.Prop == "C18" && op.ID%2 == 0 && !x.gcCancelled {
		// running the same pass again releases nothing
		n2 := g.W.NumTasks()
		g.W.Advance(2 * time.Second)
		g.W.TagNext = "gc"
		_, _, err2 := gcRequest(g, x.plan.Cfg.GCWeb, b, begin, end, op.GCDays, op.Merge, false)
		g.W.TagNext = ""
		if err2 == nil {
			if !g.W.WaitCondTimeout("gc2-done", 2*time.Hour, func() bool { return g.W.TasksDone("store.gcMgr.gc", n2) }) {
				x.fail("R-gc-hang", fmt.Sprintf("second %s did not finish", op))
				return
			}
			h2 := g.H.VerifGCHistory(b)
			if len(h2) > 0 {
				st := h2[len(h2)-1]
				if st.NumReleased != 0 || st.SizeReleased != 0 {
					x.failSub("R-gc-second-pass-released", "", fmt.Sprintf("%s resolved to [%d,%d]; the same request again released %d records / %d bytes", op, begin, end, st.NumReleased, st.SizeReleased))
					return
				}
				x.out.probe("gc-second-pass-released-nothing")
			}
			x.verifyAll(fmt.Sprintf("after-second-gc[%d,%d]", begin, end), false)
		}
	}
}

type dataSnap map[string][]byte

func snapshotDataFiles(dir string) dataSnap {
	out := dataSnap{}
	ents, _ := os.ReadDir(dir)
	for _, e := range ents {
		if strings.HasSuffix(e.Name(), ".data") {
			b, err := os.ReadFile(filepath.Join(dir, e.Name()))
			if err == nil {
				out[e.Name()] = b
			}
		}
	}
	return out
}

func sameSnapshot(a, b dataSnap) bool {
	if len(a) != len(b) {
		return false
	}
	for k, v := range a {
		if string(b[k]) != string(v) {
			return false
		}
	}
	return true
}

func chunkOfName(name string) int {
	n, err := strconv.Atoi(strings.TrimSuffix(filepath.Base(name), ".data"))
	if err != nil {
		return -1
	}
	return n
}

func (x *seqExec) classifyGC(begin, end, head int, before dataSnap, bdir string) {
	after := snapshotDataFiles(bdir)
	for name, b := range after {
		id := chunkOfName(name)
		old, had := before[name]
		switch {
		case id < begin && had && len(b) > len(old):
			x.out.probe("gc-dst-earlier-file")
		case id == begin && had:
			x.out.probe("gc-in-place")
		case id > begin && id <= end && had && string(b) != string(old):
			x.out.probe("gc-dst-overflow")
		}
	}
	for name := range before {
		if _, ok := after[name]; !ok {
			x.out.probe("gc-file-removed")
		}
	}
}

// checkReclaimed (C18): after a pass without concurrent writes every surviving data file of
// the range holds only records that are the current record of their key, each once; the
// prefix of an earlier file that was only appended to is unchanged.
func (x *seqExec) checkReclaimed(op Op, b, begin, end int, before dataSnap, bdir string) {
	after := snapshotDataFiles(bdir)
	cfg := &x.plan.Cfg
	byKey := map[string]*KeyModel{}
	for _, km := range x.m.Keys {
		byKey[string(km.Key)] = km
	}
	seen := map[string]int{}
	names := make([]string, 0, len(after))
	for n := range after {
		names = append(names, n)
	}
	sort.Strings(names)
	for _, name := range names {
		data := after[name]
		id := chunkOfName(name)
		if id < begin {
			old, had := before[name]
			if had && (len(data) < len(old) || string(data[:len(old)]) != string(old)) {
				x.fail("R-gc-prefix-modified", fmt.Sprintf("%s: earlier file %s was modified below its pre-GC size %d", op, name, len(old)))
				return
			}
			continue
		}
		if id > end {
			old, had := before[name]
			if !had || string(old) != string(data) {
				x.fail("R-gc-touched-ineligible", fmt.Sprintf("%s resolved to [%d,%d] but %s changed", op, begin, end, name))
				return
			}
			continue
		}
		sc := refScanBytes(data, 250, int(cfg.BodyMax)+65536)
		if len(sc.Broken) > 0 {
			x.fail("R-layout", fmt.Sprintf("%s: file %s has unreadable blocks at %v after GC", op, name, sc.Broken))
			return
		}
		for _, rec := range sc.Recs {
			km := byKey[string(rec.Key)]
			if km == nil {
				x.fail("R-gc-survivor", fmt.Sprintf("%s: file %s holds a record of unknown key %q", op, name, trunc(string(rec.Key), 40)))
				return
			}
			if km.Collide {
				continue
			}
			cur := false
			for _, a := range km.Alts {
				if a.Ver == 0 {
					continue
				}
				if a.DataVer == rec.Ver || a.Ver == rec.Ver {
					if rec.Ver < 0 {
						cur = true
					} else if val, ok := storedValue(rec); ok && string(val) == string(a.Val) {
						cur = true
					}
				}
			}
			if !cur {
				// a tombstone of a key whose tombstone may have been dropped by a rebuild is retained
				// on purpose when the pass does not start at file 0
				if rec.Ver < 0 && begin > 0 {
					x.out.probe("gc-tombstone-kept")
					isLatest := true
					for _, a := range km.Alts {
						if a.live() {
							isLatest = false
						}
					}
					if isLatest {
						continue
					}
				}
				x.fail("R-gc-survivor", fmt.Sprintf("%s: file %s offset %d still holds a superseded record of k%q ver %d; model %s",
					op, name, rec.Off, trunc(string(rec.Key), 30), rec.Ver, km.describe()))
				return
			}
			seen[string(rec.Key)+fmt.Sprint(rec.Ver)]++
			if seen[string(rec.Key)+fmt.Sprint(rec.Ver)] > 1 {
				x.fail("R-gc-dup", fmt.Sprintf("%s: current record of %q appears twice in the collected range", op, trunc(string(rec.Key), 30)))
				return
			}
		}
	}
	x.out.probe("gc-range-scanned")
}

// checkDataFiles (C09 part 1 inside every sequential world): every flushed data file decodes
// with the independent decoder into whole 256-byte records.
func (x *seqExec) checkDataFiles() {
	cfg := &x.plan.Cfg
	for _, b := range cfg.Served {
		dir := x.sim.bucketDir(b)
		for name, data := range snapshotDataFiles(dir) {
			sc := refScanBytes(data, 250, int(cfg.BodyMax)+65536)
			if len(sc.Broken) > 0 || sc.PartialEnd {
				x.fail("R-layout", fmt.Sprintf("data file %s/%s: unreadable 256-blocks at %v partialEnd=%v", dir, name, sc.Broken, sc.PartialEnd))
				return
			}
			for _, rec := range sc.Recs {
				if rec.Flag&flagServerCompress == 0 {
					continue
				}
				// in-situ cross check, C -> Go: what the C QuickLZ stored must decompress with
				// the Go implementation to a value really written for this key
				x.out.probe("value-compressed")
				v, ok := storedValue(rec)
				okv := false
				for _, km := range x.m.Keys {
					if string(km.Key) != string(rec.Key) {
						continue
					}
					if km.Collide && ok {
						okv = true // writes of a collision group taken out of the comparison are not recorded
					}
					for _, w := range km.Writes {
						if ok && !w.Tomb && string(w.Val) == string(v) {
							okv = true
						}
					}
				}
				if !okv {
					x.failSub("R-layout", "cross-decompress", fmt.Sprintf("data file %s/%s offset %d: the server-compressed value of key %q does not decompress (Go QuickLZ, ok=%v) to a value written for that key", dir, name, rec.Off, trunc(string(rec.Key), 30), ok))
					return
				}
			}
		}
	}
}

var _ = cmem.DBRL
