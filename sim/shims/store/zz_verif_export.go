// +build verif

package store

// Export shim added to the scratch copy only: gives the harness (a separate module) access to
// unexported entry points. No logic.

import (
	simrt "github.com/douban/gobeansdb/zzsimrt"
)

func VerifResetGlobals() {
	gcLock = simrt.Mutex{}
	mergeChan = nil
	getKeyHash = getKeyHashDefalut
	thresholdListKey = ThresholdListKeyDefault
	SecsBeforeDump = SecsBeforeDumpDefault
}

func VerifSetKeyHash(f func(key []byte) uint64) {
	if f == nil {
		getKeyHash = getKeyHashDefalut
	} else {
		getKeyHash = f
	}
}

func VerifDefaultKeyHash(key []byte) uint64 { return getKeyHashDefalut(key) }

func VerifSetThresholdListKey(n uint32) { thresholdListKey = n }

func (store *HStore) VerifFlush(force bool) { store.flushdatas(force) }

func (store *HStore) VerifDumpHints() {
	for _, bkt := range store.buckets {
		if bkt.State == BUCKET_STAT_READY {
			bkt.hints.dumpAndMerge(false)
		}
	}
}

func (store *HStore) VerifMergeHints(bucket int) error {
	return store.buckets[bucket].hints.Merge(false)
}

// VerifHead returns the id of the data file receiving appends and the in-memory sizes of all
// files up to it.
func (store *HStore) VerifHead(bucket int) (head int, sizes []uint32, wbuf uint32) {
	bkt := store.buckets[bucket]
	if bkt.datas == nil {
		return -1, nil, 0
	}
	head = bkt.datas.newHead
	sizes = make([]uint32, head+1)
	for i := 0; i <= head; i++ {
		sizes[i] = bkt.datas.chunks[i].size
	}
	return head, sizes, bkt.datas.wbufSize
}

func (store *HStore) VerifUnflushed(bucket int) (n int) {
	bkt := store.buckets[bucket]
	if bkt.datas == nil {
		return 0
	}
	for i := 0; i <= bkt.datas.newHead; i++ {
		n += len(bkt.datas.chunks[i].wbuf)
	}
	return
}

func (store *HStore) VerifGCRunning(bucket int) bool {
	store.gcMgr.mu.RLock()
	_, ok := store.gcMgr.stat[store.buckets[bucket]]
	store.gcMgr.mu.RUnlock()
	return ok
}

func (store *HStore) VerifGCHistory(bucket int) []GCState {
	return store.buckets[bucket].GCHistory
}

func (store *HStore) VerifNextGCChunk(bucket int) int { return store.buckets[bucket].NextGCChunk }

func (store *HStore) VerifTreeID(bucket int) (int, int) {
	b := store.buckets[bucket]
	return b.TreeID.Chunk, b.TreeID.Split
}

func (store *HStore) VerifHintState(bucket int) int { return store.buckets[bucket].hints.state }

func (store *HStore) VerifCollisionCount(bucket int) int {
	b := store.buckets[bucket]
	if b.hints == nil {
		return 0
	}
	b.hints.collisions.Lock()
	n := len(b.hints.collisions.Items)
	b.hints.collisions.Unlock()
	return n
}

// VerifStaleTail lists the data files that are being rewritten in place by a GC pass and still
// carry old content above the write head (classification of known finding KF-C07-stale-tail).
func (store *HStore) VerifStaleTail() (ids []int) {
	for _, bkt := range store.buckets {
		if bkt.datas == nil {
			continue
		}
		for i := 0; i < MAX_NUM_CHUNK; i++ {
			dc := &bkt.datas.chunks[i]
			if dc.rewriting && dc.writingHead < dc.size {
				ids = append(ids, i)
			}
		}
	}
	return
}
