// +build verif

package gobeansdb

import "github.com/douban/gobeansdb/store"

func VerifNewStorageClient(h *store.HStore) *StorageClient { return &StorageClient{h} }

// VerifSetStorage points the admin HTTP handlers (web.go) at a store, as Main() does.
func VerifSetStorage(h *store.HStore) {
	if storage == nil || storage.hstore != h {
		storage = &Storage{hstore: h}
	}
}
