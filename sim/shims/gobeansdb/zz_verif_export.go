// +build verif

package gobeansdb

import "github.com/douban/gobeansdb/store"

func VerifNewStorageClient(h *store.HStore) *StorageClient { return &StorageClient{h} }
