// +build verif

package memcache

import "net"

func VerifNewServerConn(c net.Conn) *ServerConn { return newServerConn(c) }
