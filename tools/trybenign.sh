#!/bin/bash
# trybenign.sh <patch> <props...>: a behaviour-preserving change must not raise an alarm
P=$1; shift
cd /repo && git diff --quiet || { echo "repo dirty"; exit 2; }
git -C /repo apply "$P" || { echo "patch does not apply"; exit 2; }
cd /verif
for prop in "$@"; do
  bin/check $prop --budget 20 > /tmp/ben-$prop.log 2>&1; rc=$?
  echo "$(basename $P) $prop exit=$rc $(grep -c '^VIOLATION' /tmp/ben-$prop.log) violations"
  [ $rc -ne 0 ] && grep -A1 '^VIOLATION' /tmp/ben-$prop.log | cut -c1-300 | head -4
done
git -C /repo checkout -- .
