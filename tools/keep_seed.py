#!/usr/bin/env python3
# keep_seed.py <Sxx> <prop> <slug> <pkg> <run-regex> <<JSON {"change":..., "needs":..., "results": {...}, "author": ...}
import sys, json, os, shutil, glob
sid, prop, slug, pkg, run = sys.argv[1:6]
info = json.load(sys.stdin)
src = f"/tmp/seeded/{sid}"
dst = f"/verif/seeded/{sid}-{prop}-{slug}"
os.makedirs(dst, exist_ok=True)
demo = None
for f in glob.glob(src + "/*"):
    b = os.path.basename(f)
    if b.startswith("confirm_suite") or b == "confirm_build.log":
        continue
    shutil.copy(f, dst)
    if b.endswith("_test.go") or b.endswith(".go"):
        demo = b
conf = open(f"/tmp/confirm-{sid}.out").read().strip() if os.path.exists(f"/tmp/confirm-{sid}.out") else ""
meta = {
 "id": f"{sid}-{prop}-{slug}", "property": prop,
 "author": info.get("author", "independent sub-agent given only the property text, the one-line descriptions of the seeds already known for that property, and a scratch worktree of /repo (no code pointers or ideas from me; asked for a different mechanism, as subtle as possible)"),
 "change": info["change"], "needs_to_manifest": info["needs"],
 "demonstration": {"file": demo, "copy_into": pkg + "/", "run": f"go test -count=1 -run '{run}' ./{pkg}/" + (" -args -base <scratch dir>" if pkg == "store" else "")},
 "confirmed_by_me": {"how": "tools/confirm_seeded.sh in a scratch worktree of /repo HEAD", "result": conf,
   "meaning": "patch applies and builds; demonstration passes without the patch and fails with it; the repository's suite passes with the patch (only gobeansdb::TestConfig fails, as on the unchanged tree)"},
 "checks_run": "tools/trymutant.sh <patch> <property> <budget> (scratch worktree of /repo HEAD + patch, VERIF_REPO)",
 "results": info["results"],
}
json.dump(meta, open(dst + "/meta.json", "w"), indent=1, ensure_ascii=False)
print("kept", dst)
