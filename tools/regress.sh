#!/bin/bash
# regress.sh: for every (replay file, fix commit) pair check that the replay reports a violation on
# the parent of the fix and none on the current tree. Scratch worktrees live under /tmp and are removed.
cd "$(dirname "$0")/.." || exit 2
# Not in the list: regress/C17-gcrange-wbuf-race.json (fix e04f813). It was recorded with the harness of
# 2026-09-23; later changes of the concurrent engine (request storm, bounded-delay handling) shifted its
# schedule and it no longer reproduces on the parent of the fix. Re-searching the defect with only that
# fix reverted (4 runs, ~15 000 C17 worlds, quick and thorough, three seeds) did not hit the one-statement
# window again (it had been 1 world in ~1500). The file is kept for the record.
pairs="
C01 regress/C01-meta-2566028507118315107.json 1511c2a
C02 regress/C02-status-4183224183859179178.json 202bbc8
C02 regress/C02-hit-deleted-909034211179316128.json 202bbc8
C02 regress/C02-panic-1727719820149754971.json e86815d
C05 regress/C05-cancel-truncate-7021487279790990957.json 38886a3
C05 regress/C05-final-not-highest-7581099033439676226.json 553583f
C17 regress/C17-gc-overlap-3129677609247335922.json 42dd775
C06 regress/C06-crash-durable-unreadable-1455515618905527154.json 94ae13f
C09 regress/C09-corrupt-lost-intact-3055599256311486531.json c2ac8c8
C11 regress/C11-proto-no-reply-4354168449822104225.json e6b7fd6
C11 regress/C11-proto-no-reply-877927708295711807.json 448eabd
C11 regress/C11-proto-roundtrip-8393061843430646012.json 98a0187
C12 regress/C12-counter-nonzero-1053441451789434138.json 3a2e63d
C12 regress/C12-counter-nonzero-5445450760368162252.json 9fd999f
C12 regress/C12-counter-nonzero-7603118085941297519.json c385cf7
C12 regress/C12-counter-nonzero-1182017169601261124.json f49c7eb
C11 regress/C11-proto-extra-reply-8697307517601547343.json 1791069
C05 regress/C05-panic-6448108130810342654.json 6ab2777 revert
C11 regress/C11-proto-roundtrip-reply-3369049078810884284.json 5896adf
C07 regress/C07-shutdown-during-gc-3563302134185838027.json 93602c9
C15 regress/C15-second-route-reload-1201409606913257291.json 93361d6
C12 regress/C12-append-accounting-race-1987312816409268858.json c76529b
C13 regress/C13-hint-lookup-eof-1651978268130638736.json 6295877
C13 regress/C13-stale-collision-registration-2970692947236326030.json 66f2ad3
C13 regress/C13-get-before-hints-loaded-2337750529945228142.json 55441ef
C05 regress/C05-gc-vs-hint-loader-3713217905197791706.json 5cb5596
C13 regress/C13-restart-older-own-value-3023141186284758218.json 2c2f6c6
C05 regress/C05-bump-vs-gc-7293442130008682800.json 1bafda1
"
# A fourth column "revert" means: the witness was recorded on the current tree with only that fix
# reverted (git show <fix> | git apply -R), because later fixes shift its schedule on the old parent.
echo "$pairs" | while read prop file commit mode; do
  [ -z "$prop" ] && continue
  [ -f "$file" ] || { echo "$prop $file: MISSING"; continue; }
  bin/check $prop --replay $file > /tmp/regress-now.log 2>&1; now=$?
  wt=$(mktemp -d /tmp/regress-wt-XXXXXX); rmdir $wt
  if [ "$mode" = revert ]; then
    git -C /repo worktree add -q --detach $wt HEAD || { echo "$prop $file: cannot create worktree"; continue; }
    (cd $wt && git show $commit | git apply -R) || { echo "$prop $file: cannot revert $commit"; git -C /repo worktree remove --force $wt; continue; }
  else
    git -C /repo worktree add -q --detach $wt ${commit}^ || { echo "$prop $file: cannot create worktree"; continue; }
  fi
  VERIF_REPO=$wt bin/check $prop --replay $file > /tmp/regress-old.log 2>&1; old=$?
  git -C /repo worktree remove --force $wt
  echo "$prop $(basename $file) fix=$commit: current tree exit=$now, ${mode:-parent} of fix exit=$old"
done
