#!/bin/bash
# trymutant.sh <patch.diff> <prop> [budget] : run the quick check of <prop> against /repo HEAD + patch.
# The patch is applied in a scratch worktree of /repo (removed afterwards), so /repo itself and any
# check running from it are not disturbed; evidence and replays of the run go to /tmp/mut-out, not /verif.
P=$1; PROP=$2; B=${3:-40}
WT=$(mktemp -d /tmp/mut-wt-XXXXXX); rmdir $WT
git -C /repo worktree add -q --detach $WT HEAD || { echo "cannot create worktree"; exit 2; }
git -C $WT apply "$P" || { echo "patch does not apply"; git -C /repo worktree remove --force $WT; exit 2; }
mkdir -p /tmp/mut-out
cd /verif && VERIF_REPO=$WT VERIF_EVIDENCE_DIR=/tmp/mut-out VERIF_REPLAY_DIR=/tmp/mut-out bin/check $PROP --budget $B > /tmp/mut-$PROP.log 2>&1; rc=$?
git -C /repo worktree remove --force $WT
echo "exit=$rc"; grep -v "^	\|^github\|^goroutine\|^panic" /tmp/mut-$PROP.log | cut -c1-600 | tail -8
