#!/bin/bash
# trymutant.sh <patch.diff> <prop> [budget] : apply a seeded change to /repo, run the quick check, undo.
P=$1; PROP=$2; B=${3:-40}
cd /repo && git diff --quiet || { echo "repo dirty"; exit 2; }
git -C /repo apply "$P" || { echo "patch does not apply"; exit 2; }
cd /verif && bin/check $PROP --budget $B > /tmp/mut-$PROP.log 2>&1; rc=$?
git -C /repo checkout -- .
echo "exit=$rc"; grep -v "^	\|^github\|^goroutine\|^panic" /tmp/mut-$PROP.log | cut -c1-600 | tail -8
