#!/usr/bin/env python3
# regenerates MANIFEST.json from the table below
import json, sys
claimed = {
 "C01": ("exploration", "4 C01", "seeded simulation: single-client protocol worlds vs reference map"),
 "C02": ("exploration", "4 C02", "seeded simulation: clean shutdown/reopen racing background tasks, index-file subsets deleted or the tree dump truncated, histories with and without GC passes, vs reference map"),
 "C03": ("exploration", "4 C03", "seeded simulation: public GC (also cancelled in the middle of a source file) on generated multi-file layouts, restarts, vs reference map"),
 "C04": ("exploration", "4 C04", "seeded schedules (random walk / PCT / spawn delay) of 2..16 client tasks with real flusher and hint dumper; per-key linearizability (porcupine) against a versioned register + value attribution + final state"),
 "C05": ("exploration", "4 C05", "C04 plus one public GC pass under seeded schedules, with client writes, slow readers and cancel requests placed inside the pass and, in part of the worlds, the pass requested right after a restart (racing the background hint loader); reads overlapping a pass may fail but not miss; final state and clean restart checked"),
 "C17": ("exploration", "4 C17", "arbitrary GC arguments on generated layouts checked on the disk-seam event log and inventories; a storm of competing GC requests (some preceded by a cancel) under seeded schedules with a pass-overlap detector"),
 "C06": ("fault_enumeration", "4 C06", "crash (SIGKILL) at file-system mutation boundaries of simulated histories + torn data writes; every snapshot recovered and read back; independent durable-log scan as oracle"),
 "C07": ("fault_enumeration", "4 C07", "crash at every file-system mutation boundary inside simulated GC passes + torn relocation writes, with client writes placed inside the pass or a clean shutdown started in the middle of it; recovery vs pre-pass model state (keys written during the pass: kill oracle of C06)"),
 "C08": ("exploration", "4 C08", "pairs of simulated worlds with equal content and different histories: complete listing walks compared; plus recomputation of listings from the reference model inside every world"),
 "C11": ("exploration", "4 C11", "grammar-generated and mutated byte streams delivered by the network simulator (fragmentation, delays, truncation with close or half-open silence) on 1..3 connections; independent reference parser predicts the reply sequence; bounded liveness by sentinel commands"),
 "C12": ("exploration", "4 C12", "C11 streams on 1..8 connections with connection drops at arbitrary bytes and slow-client stalls; counters never negative; tokens and the four buffer counters exactly zero at quiescence"),
 "C13": ("exploration", "4 C13", "C01/C02/C03 histories over key groups forced onto one key hash (hash override seam), gets compared with an independent-keys reference map; a third of the worlds are benign (no operation through which a recorded finding can act) and absorb nothing"),
 "C09": ("fault_enumeration", "4 C09", "independent decode of data files vs the model's append log; corruption faults (bit flips, byte overwrites, zeroed blocks, truncations, forged size fields) enumerated over record positions; positional and rescan reads after restart vs independent resynchronising scanner; GC over the damaged files and another restart must not change any read"),
 "C10": ("exploration", "4 C10", "seeded simulation: threshold values through buffer/disk/restart/GC vs reference map and reference value hash"),
 "C15": ("exploration", "4 C15", "seeded simulation: disk-seam observation of every append vs reference routing, served/unserved subsets, route changes at restarts and on the running process (ChangeRoute)"),
 "C18": ("exploration", "4 C18", "seeded simulation: independent scan of surviving files after GC vs the model's current records"),
}
texts = {
 "C01": "Every reply of generated single-client histories (with flush, rotation, hint dumps and background tasks scheduled by the simulator) equals the reference map's reply; sampling over configurations, histories and schedules, not proof.",
 "C02": "After every simulated clean shutdown (Close racing flusher, dumper and post-rotation flush under seeded schedules) and reopen with drawn index-file subsets removed, all keys read back per the model; sampling.",
 "C03": "GC through the public entry point never changes what any key reads, also after restarts with rebuilt indexes and further passes; sampling over layouts, ranges and histories.",
 "C04": "Recorded concurrent histories (invoke/return stamped with the simulator's event counter) are linearizable per key against a register with the documented version arithmetic; every returned value is attributable to a write of that key; the final state is the highest-version write; sampling over schedules.",
 "C05": "Same oracle while a GC pass (any legal range, merge on/off, optional cancel) relocates the keys' records; after the pass and after a clean restart every key holds its last acknowledged write; sampling over schedules; assumes a runnable goroutine is not starved for seconds (DESIGN section 10).",
 "C17": "No disk mutation of a pass touches the file receiving appends or an existing file outside the resolved range (except appends to one earlier file), pretend mode and refusals mutate nothing, the age limit holds for the file following the range, and two passes on one bucket never overlap; sampling over arguments, layouts and schedules.",
 "C06": "Per generated history the crash points (every disk mutation boundary in thorough, a drawn sixth in quick) and torn variants of data writes are recovered and read back: served values must be really issued writes not older than the newest intact durable record; refusal to start only with a partial record at a file end. Exhaustive per history in the thorough tier only, never for the property.",
 "C07": "Same enumeration restricted to the boundaries inside GC passes; after recovery every key must read its pre-pass value. The in-place rewrite of the first file of a range is not crash safe (known findings KF-C07-stale-tail-*, DESIGN section 11); violations outside that state are reported.",
 "C08": "For pairs of stores with equal live content reached through different histories (permutation, redundant overwrites, delete-then-reset at a forced version, restarts with the tree loaded or rebuilt, GC) the complete listing walks agree node for node and as live-item sets; listings also equal an independent recomputation (reference key hash, value hash, aggregation) at all prefix lengths 0..16, including single-leaf populations above the 100-item and 256-key thresholds; sampling.",
 "C11": "For generated streams every complete well-formed command gets exactly one syntactically valid reply in order (exact status and bytes for data commands), malformed ones an error reply or orderly close, nothing wedges (sentinel on the same connection when it is in sync, and on a fresh connection), requests round-trip through the repository's own codec; timing faults (protocol timeouts) are excluded; known finding KF-C11-token-starvation.",
 "C12": "After every generated multi-connection stream set (valid, malformed, cut, slow client) all request tokens are free and GetData/SetData/FlushData/AllocRL are exactly (0,0) once connections are closed and data is flushed; no counter is ever negative; sampling.",
 "C13": "Only what a get returns is compared for colliding keys (the statement's observable obligations). The code violates the property in several ways (known findings KF-C13-collide-*); groups hit by a known finding are taken out of the comparison and the world continues, any other violation is reported.",
 "C09": "The bytes on disk decode (independent codec, CRC-32, 256-byte blocks) to exactly the model's append log; for enumerated corruption faults a get never returns anything but bytes written for that key, and after a rescan every key reads its newest intact record at the scanner's offset. Complete per file only in the thorough tier; CRC collisions ignored.",
 "C10": "Values around every compression decision threshold read back byte-exact with client flags and reference value hash from buffer, disk, after restart and GC; only the first sentence of the property (second sentence: not decided, see DESIGN section 5).",
 "C15": "Every data append observed at the disk seam lies in the directory selected by the reference key hash; unserved buckets store nothing and miss; sampling over keys and served subsets.",
 "C18": "After a completed pass with no concurrent writes an independent scanner finds only current records, each once, in the collected range; earlier-file prefix unchanged; sampling over layouts.",
}
na = {
 "C14": "pure function of an item multiset and an index-interval setting: no schedule, clock, fault or crash point for the simulator to decide (DESIGN section 5)",
 "C16": "three pure functions of a byte string; not a simulation question (reference implementations are part of the oracles of C01/C08/C09/C15)",
}
pending = {}
for line in open(sys.argv[1] if len(sys.argv) > 1 else "/dev/null"):
    pass
allprops = ["C%02d" % i for i in range(1, 19)]
checks = []
for p in allprops:
    if p in claimed:
        lvl, ref, tech = claimed[p]
        checks.append({
            "property_id": p,
            "quick_cmd": "bin/check %s --tier quick" % p,
            "thorough_cmd": "bin/check %s --tier thorough" % p,
            "evidence_file": "evidence/%s.json" % p,
            "replay_cmd_template": "bin/check %s --replay {path}" % p,
            "engine": "simharness",
            "level_claimed": {"category": lvl, "text": texts[p], "design_ref": "DESIGN.md section " + ref},
            "level_note": "trusted: the go/ast rewriter (mechanical, type preserving), the simulation runtime, the reference model and codecs; interleavings only at synchronisation/spawn/disk/network points; real code for store, cmem, quicklz, storage client, protocol parser and server loop",
            "technique": "deterministic simulation with fault injection: " + tech,
        })
notapp = []
for p in allprops:
    if p not in claimed:
        notapp.append({"property_id": p, "reason": na.get(p, "check not built yet in this revision of /verif (engine pending); not claimed")})
m = {
 "version": 1,
 "setup_cmd": "bin/setup",
 "hooks": {
   "guard": "verif",
   "enable": "no hooks in /repo: bin/prepare copies /repo's working tree to a scratch directory, rewrites sync/go/time/os/channel call sites with tools/simrewrite and adds export shims carrying the build tag verif; the harness is built there with -tags verif",
   "baseline_off_cmd": "cd /repo && GOFLAGS=-mod=mod GOPROXY=off GOSUMDB=off go test -vet=off -count=1 -timeout 25m ./...",
   "source_commits": [],
   "add_only": True,
 },
 "engines": [{"name": "simharness", "path": "sim/", "serves_properties": [c["property_id"] for c in checks],
              "kind_free_text": "whole-process deterministic simulator: go/ast source rewriter + cooperative seeded scheduler, simulated clock, disk seam on tmpfs, in-memory connections; reference model, independent codecs, minimiser, replay"}],
 "checks": checks,
 "not_applicable": notapp,
 "notes": "fix: commits in /repo repair genuine defects found by these checks (see known_findings.json 'fixed' and DESIGN.md section 11).",
}
json.dump(m, open("/verif/MANIFEST.json", "w"), indent=1)
print("claimed", len(checks), "not claimed", len(notapp))
