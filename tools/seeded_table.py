#!/usr/bin/env python3
# regenerates the table of seeded changes in DESIGN.md (between the two markers) from seeded/*/meta.json
import json, glob, re
rows = []
for f in sorted(glob.glob('/verif/seeded/*/meta.json')):
    m = json.load(open(f))
    res = "; ".join(f"{k}: {v}" for k, v in m['results'].items())
    esc = lambda t: t.replace('|', '\\|').replace('\n', ' ')
    rows.append(f"| {m['id']} | {esc(m['change'])} | {esc(m['needs_to_manifest'])} | {esc(res)} |")
table = "| id | change | needs | result |\n|---|---|---|---|\n" + "\n".join(rows) + "\n"
p = '/verif/DESIGN.md'
s = open(p).read()
b, e = '<!-- seeded-table-begin -->\n', '<!-- seeded-table-end -->\n'
if b in s:
    s = s[:s.index(b) + len(b)] + table + s[s.index(e):]
else:
    start = s.index('| id | change | needs | result |')
    end = s.index('\nOwn mutants (')
    s = s[:start] + b + table + e + s[end:]
open(p, 'w').write(s)
missed = [r for r in rows if 'MISSED' in r]
print(len(rows), 'rows,', len(missed), 'missed at first')
