#!/bin/bash
# confirm_seeded.sh <id> <demo-file> <pkg-dir> <run-regex> [srcdir]
# Confirms a seeded change in a scratch worktree: patch applies and builds, the demonstration fails
# with the patch and passes without it, the repository's own suite passes with the patch.
export GOFLAGS=-mod=mod GOPROXY=off GOSUMDB=off GOTOOLCHAIN=local
ID=$1; DEMO=$2; PKG=$3; RUN=$4; SRC=${5:-/tmp/seeded/$ID}
WT=$(mktemp -d /tmp/confirm-$ID-XXXXXX); rmdir $WT
BASE=/tmp/test_gobeansdb_confirm_$ID; rm -rf $BASE; mkdir -p $BASE
git -C /repo worktree add -q --detach $WT HEAD || exit 2
cd $WT
BARG=""; [ "$PKG" = store ] && BARG="-args -base $BASE"
cp $SRC/$DEMO $PKG/
go test -count=1 -run "$RUN" ./$PKG/ $BARG > $SRC/confirm_demo_without.log 2>&1; without=$?
git apply $SRC/patch.diff || { echo "$ID: patch does not apply"; git -C /repo worktree remove --force $WT; exit 2; }
go build ./... > $SRC/confirm_build.log 2>&1; build=$?
go test -count=1 -run "$RUN" ./$PKG/ $BARG > $SRC/confirm_demo_with.log 2>&1; with=$?
rm -f $PKG/$DEMO
rm -rf $BASE; mkdir -p $BASE
(go test -vet=off -count=1 ./cmem/ ./loghub/ ./memcache/ ./quicklz/ ./utils/ ./gobeansdb/; go test -vet=off -count=1 ./store/ -args -base $BASE) > $SRC/confirm_suite_with.log 2>&1
fails=$(grep -c "^--- FAIL" $SRC/confirm_suite_with.log); cfg=$(grep -c "^--- FAIL: TestConfig" $SRC/confirm_suite_with.log)
cd /; git -C /repo worktree remove --force $WT; rm -rf $BASE
echo "$ID: build=$build demo_without_patch=$without demo_with_patch=$with suite_failures_with_patch=$fails (TestConfig: $cfg)"
