module simrewrite

go 1.23
