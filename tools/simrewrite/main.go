// simrewrite mechanically redirects every source of nondeterminism in the gobeansdb packages
// (sync, go statements, wall clock, blocking channel receives, file-system mutations) to the
// simulation runtime. It works on a scratch copy only. Purely syntactic; anything it does not
// understand makes it fail loudly (exit 2) rather than produce a half-controlled simulation.
package main

import (
	"bytes"
	"flag"
	"fmt"
	"go/ast"
	"go/format"
	"go/parser"
	"go/printer"
	"go/token"
	"os"
	"path/filepath"
	"reflect"
	"strconv"
	"sort"
	"strings"
)

var (
	simrtPath = flag.String("simrt", "github.com/douban/gobeansdb/zzsimrt", "import path of the runtime")
	yieldPkgs = flag.String("yieldpkgs", "store", "packages that get a Yield() at function entries")
	verbose   = flag.Bool("v", false, "verbose")
	stmtFiles = flag.String("stmtyield", "store/datachunk.go,store/data.go,store/bucket.go,store/hint.go,store/gc.go,store/hstore.go,store/collision.go,memcache/token.go,memcache/server.go", "files whose function bodies get a YieldStmt() before every statement")
)

func fatalf(f string, a ...interface{}) {
	fmt.Fprintf(os.Stderr, "simrewrite: "+f+"\n", a...)
	os.Exit(2)
}

var typeSubst = map[string]map[string]string{
	"sync": {"Mutex": "Mutex", "RWMutex": "RWMutex", "WaitGroup": "WaitGroup"},
	"time": {"Now": "Now", "Since": "Since", "Sleep": "Sleep", "After": "After", "AfterFunc": "AfterFunc"},
	"os": {"File": "File", "Open": "Open", "Create": "Create", "OpenFile": "OpenFile", "Rename": "Rename",
		"Remove": "Remove", "RemoveAll": "RemoveAll", "Truncate": "Truncate", "Mkdir": "Mkdir", "MkdirAll": "MkdirAll"},
	"ioutil": {"WriteFile": "WriteFile"},
	"debug":  {"FreeOSMemory": "FreeOSMemory"},
}

var forbidden = map[string]map[string]bool{
	"sync": {"Once": true, "Cond": true, "Map": true, "Pool": true, "NewCond": true, "Locker": true},
	"time": {"NewTimer": true, "Tick": true, "NewTicker": true, "Timer": true, "Ticker": true},
	"os":   {"WriteFile": true, "CreateTemp": true, "Link": true, "Symlink": true, "Chtimes": true},
	"ioutil": {"TempFile": true, "TempDir": true},
}

var watchedImports = map[string]string{
	"sync": "sync", "time": "time", "os": "os", "io/ioutil": "ioutil", "runtime/debug": "debug",
}

// functions that are part of the stubbed surface (never run in the simulation): their go/recv/
// select statements are left alone.
var skipFuncs = map[string]bool{
	"memcache.HandleSignals": true,
}

type stats struct {
	files, mutexTypes, goStmts, timeCalls, osCalls, recvs, selects, yields int
}

type rw struct {
	fset     *token.FileSet
	pkg      string
	file     string
	used     bool
	st       *stats
	curFunc  string
	skipBody bool
	nonBlock int
	tmpN     int
}

func (r *rw) simSel(name string) *ast.SelectorExpr {
	r.used = true
	return &ast.SelectorExpr{X: ast.NewIdent("simrt"), Sel: ast.NewIdent(name)}
}

var nodeType = reflect.TypeOf((*ast.Node)(nil)).Elem()

// apply walks n (pre-order hook, children, post-order hook) and returns its replacement.
func (r *rw) apply(n ast.Node) ast.Node {
	if n == nil || reflect.ValueOf(n).IsNil() {
		return n
	}
	if rep, done := r.pre(n); done {
		return rep
	}
	v := reflect.ValueOf(n)
	if v.Kind() == reflect.Ptr && v.Elem().Kind() == reflect.Struct {
		s := v.Elem()
		t := s.Type()
		for i := 0; i < s.NumField(); i++ {
			fn := t.Field(i).Name
			if fn == "Obj" || fn == "Scope" || fn == "Unresolved" || fn == "Comments" || fn == "Doc" || fn == "Comment" || fn == "Imports" {
				continue
			}
			f := s.Field(i)
			r.applyValue(f)
		}
	}
	return r.post(n)
}

func (r *rw) applyValue(f reflect.Value) {
	switch f.Kind() {
	case reflect.Interface, reflect.Ptr:
		if f.IsNil() {
			return
		}
		if node, ok := f.Interface().(ast.Node); ok {
			rep := r.apply(node)
			if rep != node {
				rv := reflect.ValueOf(rep)
				if !rv.Type().AssignableTo(f.Type()) {
					fatalf("%s: replacement %T not assignable to %s", r.file, rep, f.Type())
				}
				f.Set(rv)
			}
		}
	case reflect.Slice:
		for j := 0; j < f.Len(); j++ {
			r.applyValue(f.Index(j))
		}
	}
}

func pkgIdent(e ast.Expr) (string, bool) {
	id, ok := e.(*ast.Ident)
	if !ok || id.Obj != nil {
		return "", false
	}
	return id.Name, true
}

func (r *rw) pos(n ast.Node) string { return r.fset.Position(n.Pos()).String() }

func (r *rw) pre(n ast.Node) (ast.Node, bool) {
	switch x := n.(type) {
	case *ast.FuncDecl:
		name := x.Name.Name
		r.curFunc = r.pkg + "." + name
		r.skipBody = skipFuncs[r.curFunc]
	case *ast.SelectStmt:
		if r.skipBody {
			return n, false
		}
		hasDefault := false
		for _, c := range x.Body.List {
			if c.(*ast.CommClause).Comm == nil {
				hasDefault = true
			}
		}
		if hasDefault {
			// non-blocking: leave the statement, but rewrite the clause bodies
			for _, c := range x.Body.List {
				cc := c.(*ast.CommClause)
				r.nonBlock++
				if cc.Comm != nil {
					r.applyValue(reflect.ValueOf(&cc.Comm).Elem())
				}
				r.nonBlock--
				for i := range cc.Body {
					r.applyValue(reflect.ValueOf(&cc.Body[i]).Elem())
				}
			}
			return n, true
		}
		return r.rewriteSelect(x), true
	}
	return n, false
}

func (r *rw) rewriteSelect(x *ast.SelectStmt) ast.Node {
	var chans []ast.Expr
	var clauses []ast.Stmt
	for i, c := range x.Body.List {
		cc := c.(*ast.CommClause)
		var recv *ast.UnaryExpr
		switch s := cc.Comm.(type) {
		case *ast.ExprStmt:
			if u, ok := s.X.(*ast.UnaryExpr); ok && u.Op == token.ARROW {
				recv = u
			}
		case *ast.AssignStmt:
			if len(s.Lhs) == 1 && len(s.Rhs) == 1 {
				if id, ok := s.Lhs[0].(*ast.Ident); ok && id.Name == "_" {
					if u, ok := s.Rhs[0].(*ast.UnaryExpr); ok && u.Op == token.ARROW {
						recv = u
					}
				}
			}
		}
		if recv == nil {
			fatalf("%s: blocking select with a case that is not a value-discarding receive", r.pos(cc))
		}
		ch := r.apply(recv.X).(ast.Expr)
		chans = append(chans, ch)
		for j := range cc.Body {
			r.applyValue(reflect.ValueOf(&cc.Body[j]).Elem())
			ast.Inspect(cc.Body[j], func(n ast.Node) bool {
				if b, ok := n.(*ast.BranchStmt); ok && b.Tok == token.BREAK && b.Label == nil {
					fatalf("%s: break inside a select case body", r.pos(b))
				}
				return true
			})
		}
		clauses = append(clauses, &ast.CaseClause{
			List: []ast.Expr{&ast.BasicLit{Kind: token.INT, Value: fmt.Sprint(i)}},
			Body: cc.Body,
		})
	}
	r.st.selects++
	return &ast.SwitchStmt{
		Tag:  &ast.CallExpr{Fun: r.simSel("SelectRecv"), Args: chans},
		Body: &ast.BlockStmt{List: clauses},
	}
}

func (r *rw) post(n ast.Node) ast.Node {
	switch x := n.(type) {
	case *ast.SelectorExpr:
		pk, ok := pkgIdent(x.X)
		if !ok {
			return n
		}
		if forbidden[pk][x.Sel.Name] {
			fatalf("%s: %s.%s is not supported by the simulator", r.pos(x), pk, x.Sel.Name)
		}
		if m, ok := typeSubst[pk]; ok {
			if to, ok := m[x.Sel.Name]; ok {
				switch pk {
				case "sync":
					r.st.mutexTypes++
				case "time":
					r.st.timeCalls++
				default:
					r.st.osCalls++
				}
				return r.simSel(to)
			}
		}
	case *ast.UnaryExpr:
		if x.Op == token.ARROW && r.nonBlock == 0 && !r.skipBody {
			r.st.recvs++
			return &ast.CallExpr{Fun: r.simSel("RecvInt"), Args: []ast.Expr{x.X}}
		}
	case *ast.GoStmt:
		if r.skipBody {
			return n
		}
		return r.rewriteGo(x)
	case *ast.RangeStmt:
		// ranging over a channel would block: only the known closed-channel loop is allowed
	case *ast.FuncDecl:
		if x.Body != nil && r.pkg == "cmem" && x.Name.Name == "Free" && x.Recv != nil {
			// poison C memory before it is returned to the allocator, so that a use after free
			// shows up as wrong bytes instead of going unnoticed: simrt.Poison(arr.Body, arr.Addr)
			recv := x.Recv.List[0].Names[0].Name
			call := &ast.ExprStmt{X: &ast.CallExpr{Fun: r.simSel("Poison"), Args: []ast.Expr{
				&ast.SelectorExpr{X: ast.NewIdent(recv), Sel: ast.NewIdent("Body")},
				&ast.SelectorExpr{X: ast.NewIdent(recv), Sel: ast.NewIdent("Addr")},
			}}}
			x.Body.List = append([]ast.Stmt{call}, x.Body.List...)
			r.st.yields++
		}
		if x.Body != nil && r.wantStmtYield(x) {
			r.interleave(x.Body)
		}
		if x.Body != nil && r.wantYield(x) {
			r.st.yields++
			call := &ast.ExprStmt{X: &ast.CallExpr{Fun: r.simSel("YieldFn"), Args: []ast.Expr{&ast.BasicLit{Kind: token.STRING, Value: strconv.Quote(x.Name.Name)}}}}
			x.Body.List = append([]ast.Stmt{call}, x.Body.List...)
		}
		r.curFunc = ""
		r.skipBody = false
	}
	return n
}

var noYieldFiles = map[string]bool{"crc32.go": true, "leaf.go": true, "key.go": true, "item.go": true, "config.go": true, "config_default.go": true, "profile.go": true}

func (r *rw) wantYield(x *ast.FuncDecl) bool {
	ok := false
	for _, p := range strings.Split(*yieldPkgs, ",") {
		if p == r.pkg {
			ok = true
		}
	}
	if !ok || noYieldFiles[filepath.Base(r.file)] {
		return false
	}
	if x.Name.Name == "init" || len(x.Body.List) < 3 {
		return false
	}
	switch x.Name.Name {
	case "Less", "Swap", "Len", "String", "GoString":
		return false
	case "updateNodes", "collectItems", "updateNodesUpper", "getLeaf", "getLeafAndInvalidNodes", "getNode", "setToLeaf", "remvoeFromLeaf":
		// recursive / per-item tree walks that run entirely under the tree lock: a yield per
		// visited node only burns scheduler steps
		return false
	}
	return true
}

func (r *rw) wantStmtYield(x *ast.FuncDecl) bool {
	ok := false
	for _, f := range strings.Split(*stmtFiles, ",") {
		if f != "" && strings.HasSuffix(filepath.ToSlash(r.file), f) {
			ok = true
		}
	}
	if !ok || x.Name.Name == "init" {
		return false
	}
	switch x.Name.Name {
	case "Less", "Swap", "Len", "String", "GoString", "updateNodesUpper":
		return false
	}
	return true
}

// interleave inserts simrt.YieldStmt() before every statement of every block of a function body
// (statement-level scheduling granularity, honoured only in worlds that enable it). Blocks of
// function literals are included; select / switch case bodies too.
func (r *rw) interleave(b *ast.BlockStmt) {
	var doList func(list []ast.Stmt) []ast.Stmt
	var visit func(n ast.Node)
	yield := func() ast.Stmt {
		r.st.yields++
		return &ast.ExprStmt{X: &ast.CallExpr{Fun: r.simSel("YieldStmt")}}
	}
	doList = func(list []ast.Stmt) []ast.Stmt {
		out := make([]ast.Stmt, 0, 2*len(list))
		for _, st := range list {
			visit(st)
			switch st.(type) {
			case *ast.DeclStmt, *ast.EmptyStmt, *ast.LabeledStmt:
				out = append(out, st)
				continue
			}
			out = append(out, yield(), st)
		}
		return out
	}
	visit = func(n ast.Node) {
		ast.Inspect(n, func(m ast.Node) bool {
			clauses := func(body *ast.BlockStmt) {
				for _, c := range body.List {
					switch cl := c.(type) {
					case *ast.CaseClause:
						cl.Body = doList(cl.Body)
					case *ast.CommClause:
						cl.Body = doList(cl.Body)
					}
				}
			}
			switch y := m.(type) {
			case *ast.SwitchStmt:
				clauses(y.Body)
				return false
			case *ast.TypeSwitchStmt:
				clauses(y.Body)
				return false
			case *ast.SelectStmt:
				clauses(y.Body)
				return false
			case *ast.BlockStmt:
				if y != nil {
					y.List = doList(y.List)
				}
				return false
			case *ast.CaseClause:
				y.Body = doList(y.Body)
				return false
			case *ast.CommClause:
				y.Body = doList(y.Body)
				return false
			}
			return true
		})
	}
	b.List = doList(b.List)
}

func exprString(fset *token.FileSet, e ast.Expr) string {
	var b bytes.Buffer
	printer.Fprint(&b, fset, e)
	s := b.String()
	if i := strings.IndexByte(s, '\n'); i >= 0 {
		s = s[:i]
	}
	if len(s) > 40 {
		s = s[:40]
	}
	return s
}

func (r *rw) rewriteGo(g *ast.GoStmt) ast.Node {
	r.st.goStmts++
	call := g.Call
	name := exprString(r.fset, call.Fun)
	if _, isLit := call.Fun.(*ast.FuncLit); isLit {
		name = "func@" + r.curFunc
	}
	var stmts []ast.Stmt
	r.tmpN++
	fn := ast.NewIdent(fmt.Sprintf("simFn%d", r.tmpN))
	stmts = append(stmts, &ast.AssignStmt{Lhs: []ast.Expr{fn}, Tok: token.DEFINE, Rhs: []ast.Expr{call.Fun}})
	var args []ast.Expr
	for i, a := range call.Args {
		id := ast.NewIdent(fmt.Sprintf("simArg%d_%d", r.tmpN, i))
		stmts = append(stmts, &ast.AssignStmt{Lhs: []ast.Expr{id}, Tok: token.DEFINE, Rhs: []ast.Expr{a}})
		args = append(args, id)
	}
	inner := &ast.CallExpr{Fun: fn, Args: args}
	if call.Ellipsis.IsValid() {
		inner.Ellipsis = 1
	}
	lit := &ast.FuncLit{
		Type: &ast.FuncType{Params: &ast.FieldList{}},
		Body: &ast.BlockStmt{List: []ast.Stmt{&ast.ExprStmt{X: inner}}},
	}
	stmts = append(stmts, &ast.ExprStmt{X: &ast.CallExpr{
		Fun:  r.simSel("Go"),
		Args: []ast.Expr{&ast.BasicLit{Kind: token.STRING, Value: fmt.Sprintf("%q", name)}, lit},
	}})
	return &ast.BlockStmt{List: stmts}
}

func processFile(path, pkg string, st *stats) {
	fset := token.NewFileSet()
	src, err := os.ReadFile(path)
	if err != nil {
		fatalf("%v", err)
	}
	f, err := parser.ParseFile(fset, path, src, parser.ParseComments)
	if err != nil {
		fatalf("parse %s: %v", path, err)
	}
	// imports: refuse aliases of the watched packages, remember which are present
	for _, im := range f.Imports {
		p := strings.Trim(im.Path.Value, `"`)
		if want, ok := watchedImports[p]; ok {
			if im.Name != nil && im.Name.Name != want {
				fatalf("%s: aliased import of %s", path, p)
			}
		}
		if im.Name != nil && im.Name.Name == "." {
			fatalf("%s: dot import", path)
		}
	}
	// keep only comments that belong to the header (build constraints, cgo preamble)
	lastImportEnd := f.Name.End()
	for _, d := range f.Decls {
		if g, ok := d.(*ast.GenDecl); ok && g.Tok == token.IMPORT {
			lastImportEnd = g.End()
		}
	}
	var keep []*ast.CommentGroup
	for _, cg := range f.Comments {
		if cg.End() <= lastImportEnd {
			keep = append(keep, cg)
		}
	}
	f.Comments = keep

	r := &rw{fset: fset, pkg: pkg, file: path, st: st}
	for i := range f.Decls {
		rep := r.apply(f.Decls[i])
		f.Decls[i] = rep.(ast.Decl)
	}
	if !r.used {
		return
	}
	st.files++

	// which watched packages are still referenced?
	usedPk := map[string]bool{}
	ast.Inspect(f, func(n ast.Node) bool {
		if s, ok := n.(*ast.SelectorExpr); ok {
			if pk, ok := pkgIdent(s.X); ok {
				usedPk[pk] = true
			}
		}
		return true
	})
	var decls []ast.Decl
	inserted := false
	for i, d := range f.Decls {
		g, ok := d.(*ast.GenDecl)
		if ok && g.Tok == token.IMPORT {
			var specs []ast.Spec
			for _, s := range g.Specs {
				im := s.(*ast.ImportSpec)
				p := strings.Trim(im.Path.Value, `"`)
				if name, w := watchedImports[p]; w && !usedPk[name] {
					continue
				}
				specs = append(specs, s)
			}
			g.Specs = specs
			if len(specs) == 0 {
				continue
			}
		}
		decls = append(decls, d)
		isLastImport := ok && g.Tok == token.IMPORT
		if isLastImport {
			for _, d2 := range f.Decls[i+1:] {
				if g2, ok2 := d2.(*ast.GenDecl); ok2 && g2.Tok == token.IMPORT {
					isLastImport = false
				}
			}
		}
		if isLastImport && !inserted {
			inserted = true
			decls = append(decls, &ast.GenDecl{Tok: token.IMPORT, Specs: []ast.Spec{
				&ast.ImportSpec{Name: ast.NewIdent("simrt"), Path: &ast.BasicLit{Kind: token.STRING, Value: fmt.Sprintf("%q", *simrtPath)}},
			}})
		}
	}
	if !inserted {
		decls = append([]ast.Decl{&ast.GenDecl{Tok: token.IMPORT, Specs: []ast.Spec{
			&ast.ImportSpec{Name: ast.NewIdent("simrt"), Path: &ast.BasicLit{Kind: token.STRING, Value: fmt.Sprintf("%q", *simrtPath)}},
		}}}, decls...)
	}
	f.Decls = decls

	var buf bytes.Buffer
	if err := printer.Fprint(&buf, fset, f); err != nil {
		fatalf("print %s: %v", path, err)
	}
	out, err := format.Source(buf.Bytes())
	if err != nil {
		os.WriteFile(path+".simrewrite.broken", buf.Bytes(), 0644)
		fatalf("format %s: %v", path, err)
	}
	if err := os.WriteFile(path, out, 0644); err != nil {
		fatalf("%v", err)
	}
}

func main() {
	flag.Parse()
	if flag.NArg() == 0 {
		fatalf("usage: simrewrite [flags] pkgdir...")
	}
	st := &stats{}
	for _, dir := range flag.Args() {
		ents, err := os.ReadDir(dir)
		if err != nil {
			fatalf("%v", err)
		}
		var names []string
		for _, e := range ents {
			n := e.Name()
			if e.IsDir() || !strings.HasSuffix(n, ".go") || strings.HasSuffix(n, "_test.go") {
				continue
			}
			names = append(names, n)
		}
		sort.Strings(names)
		for _, n := range names {
			processFile(filepath.Join(dir, n), filepath.Base(dir), st)
		}
	}
	fmt.Printf("simrewrite: files=%d sync-types=%d go=%d time=%d os=%d recv=%d select=%d yields=%d\n",
		st.files, st.mutexTypes, st.goStmts, st.timeCalls, st.osCalls, st.recvs, st.selects, st.yields)
}
