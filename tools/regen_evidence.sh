#!/bin/bash
# regenerates every evidence file by running each claimed check's quick command in /verif against /repo itself
cd "$(dirname "$0")/.." || exit 2
for p in $(python3 -c "import json;print(' '.join(c['property_id'] for c in json.load(open('MANIFEST.json'))['checks']))"); do
  s=$(date +%s); bin/check $p --tier quick > /tmp/regen-$p.log 2>&1; rc=$?; e=$(date +%s)
  echo "$p rc=$rc $((e-s))s $(grep -c '^VIOLATION' /tmp/regen-$p.log) violations $(grep -c '^KNOWN' /tmp/regen-$p.log) known :: $(grep ' quick: ' /tmp/regen-$p.log | cut -c1-100)"
done
